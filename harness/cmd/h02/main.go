// h02: correspondence harness for C02 (a transition succeeds iff every critical task
// acknowledged it).  Drives the real core in-process (internal/simcore): environments are created
// through envman.CreateEnvironment (DEPLOY + CONFIGURE) and commanded through
// RpcServer.ControlEnvironment (START_ACTIVITY / STOP_ACTIVITY / RESET / CONFIGURE) while the
// simulated executors answer every command according to a per-task outcome script.
// Cases are spread over worker processes (one core per process: the core has singletons and its
// command queue is serial), each worker writes its observations, the parent prints the Coq terms.
package main

import (
	"encoding/json"
	"flag"
	"fmt"
	"os"
	"os/exec"
	"path/filepath"
	"runtime/pprof"
	"strings"
	"sync"
	"time"

	"github.com/AliceO2Group/Control/executor/executable"

	"verif/harness/internal/c0203"
	"verif/harness/internal/gen"
	"verif/harness/internal/simcore"
)

// ---------------------------------------------------------------- case description

type Op struct {
	Kind string   `json:"kind"`         // cmd | kill
	Ev   string   `json:"ev,omitempty"` // CONFIGURE | START | STOP | RESET
	Oc   []string `json:"oc,omitempty"` // ack | errsrc | errerr | sendfail | silent | dies, by task position
	I    int      `json:"i,omitempty"`  // kill: task position
	// kill: how the task dies: "" TASK_FAILED status update; "executor": a Mesos FAILURE event for its
	// executor (HandleExecutorFailed, which filters the roster).  The same step for the model.
	Via string `json:"via,omitempty"`
}

type Input struct {
	Tasks  []c0203.Task `json:"tasks"`
	NCalls int          `json:"ncalls"`
	Launch []string     `json:"launch"` // run | fail | silent | nooffer | nores
	Cfg    []string     `json:"cfg"`
	Ops    []Op         `json:"ops"`
	// shape of the workflow, invisible to the model (the root's status is the fold of the leaves
	// however they are grouped): the first Nest tasks sit under an aggregator role "g"; Gate (Nest = 2,
	// no call role) forces the interleaving of the two TASK_RUNNING updates described in gate.go
	Nest int  `json:"nest,omitempty"`
	Gate bool `json:"gate,omitempty"`
	// Bystander > 0: once the environment is created, a second environment of that many non-critical
	// tasks is created and destroyed again before the first request.  Invisible to the model: another
	// environment's life must not change anything here.  (Its teardown filters the task manager's
	// roster for tasks that are NOT a prefix of it - KillTasks, doKillTasks - which is where a filter
	// that writes through the roster's slice loses the tasks of this environment.)
	Bystander int `json:"bystander,omitempty"`
}

type StepObs struct {
	State    int      `json:"state"`
	Err      bool     `json:"err"`
	Hang     bool     `json:"hang"`
	Reported []int    `json:"reported"`
	Cmded    []int    `json:"cmded"`
	Tasks    [][2]int `json:"tasks"`
	ErrText  string   `json:"err_text,omitempty"` // not compared
	// diagnosis only, not compared: how long the request and the settling of the role view took when
	// that was long, and whether the expected view was never reached within the bound
	Diag      string `json:"diag,omitempty"` // failed creation that was scripted to succeed: what the launch director saw
	SlowMs    int  `json:"slow_ms,omitempty"`
	Unsettled bool `json:"unsettled,omitempty"`
}

type job struct {
	Idx  int    `json:"idx"`
	Kind string `json:"kind"`
	In   Input  `json:"in"`
}

type result struct {
	Idx    int       `json:"idx"`
	Obs    []StepObs `json:"obs"`
	Reruns int       `json:"reruns,omitempty"` // runs repeated after a DEPLOY time-out with every task ACTIVE
}

// ---------------------------------------------------------------- running one case

func slow(oc []string) bool {
	for _, o := range oc {
		if o == "silent" || o == "dies" || o == "gone" {
			return true
		}
	}
	return false
}

func expectAfterCmd(view [][2]int, ev string, oc []string) [][2]int {
	src := map[string]int{"CONFIGURE": 1, "START": 2, "STOP": 3, "RESET": 2}[ev]
	dst := map[string]int{"CONFIGURE": 2, "START": 3, "STOP": 2, "RESET": 1}[ev]
	out := make([][2]int, len(view))
	for i, v := range view {
		out[i] = v
		if v[1] != 3 {
			continue
		}
		o := "ack"
		if i < len(oc) {
			o = oc[i]
		}
		switch o {
		case "ack", "":
			out[i][0] = dst
		case "errsrc":
			out[i][0] = src
		case "errerr":
			out[i][0] = 4
		case "dies":
			out[i] = [2]int{4, 1}
		}
	}
	return out
}

// Time-outs.  The deploy_timeout of the generated workflow is generous when the case scripts every
// task to launch (a deployment that is expected to go through must not fail because the machine is
// busy; when it goes through the time-out costs nothing) and short only where the script makes the
// deployment fail, possibly by running into that time-out: those cases fail whenever the time-out
// fires, so nothing they observe depends on its length.  Every wait below returns as soon as its
// condition holds; the bounds only decide when a deviation is given up on.
const (
	deployTimeoutOK   = "10s"
	deployTimeoutFail = "1200ms"
	settleFor         = 3 * time.Second
	maxReruns         = 2
)

// deploymentScriptedToSucceed: the workflow has a role and every task is scripted to launch.
func deploymentScriptedToSucceed(in Input) bool {
	if len(in.Tasks) == 0 && in.NCalls == 0 {
		return false
	}
	for i := range in.Tasks {
		if i < len(in.Launch) && in.Launch[i] != "" && in.Launch[i] != "run" {
			return false
		}
	}
	return true
}

// runCase runs one case; it is run again (at most maxReruns times, counted in the evidence) when its
// only anomaly is a DEPLOY that timed out although every task was launched and seen ACTIVE in the
// roster: the loss of the status notification (non-blocking send to the DEPLOY loop) is a scheduling
// accident outside the model (props.d assumptions; C03 analyses it).  A deployment that keeps timing
// out is reported as it is.
func runCase(w *c0203.World, idx int, in Input) (obsOut []StepObs, wedged bool, reruns int) {
	for try := 0; ; try++ {
		obs, wedged, accident := runCaseOnce(w, idx, try, in)
		if accident && !wedged && try < maxReruns {
			reruns++
			fmt.Fprintf(os.Stderr, "case %d: DEPLOY timed out with every task ACTIVE, run again (%d)\n", idx, reruns)
			continue
		}
		return obs, wedged, reruns
	}
}

func runCaseOnce(w *c0203.World, idx int, try int, in Input) (obsOut []StepObs, wedged bool, accident bool) {
	name := fmt.Sprintf("w%d", idx)
	if try > 0 {
		name = fmt.Sprintf("w%dr%d", idx, try)
	}
	var calls []c0203.Call
	for i := 0; i < in.NCalls; i++ {
		calls = append(calls, c0203.Call{Id: fmt.Sprintf("%s-k%d", name, i), Trigger: "after_RESET", Critical: false})
	}
	deployTimeout, hang := deployTimeoutFail, 3500*time.Millisecond
	if deploymentScriptedToSucceed(in) {
		deployTimeout, hang = deployTimeoutOK, 13500*time.Millisecond
	}
	heavy := false
	for i, l := range in.Launch {
		if i < len(in.Tasks) && in.Tasks[i].Crit && (l == "nooffer" || l == "nores") {
			heavy = true // acquireTasks retries three times, one second apart, under the deploy mutex
		}
	}
	if slow(in.Cfg) {
		hang = 150 * time.Second
	}
	t0 := time.Now()
	gateNotes := func() (string, bool) { return "", false }
	if nestable(in) {
		w.YAMLOf, w.PathOf = nestedYAML(in.Nest), nestedPath(in.Nest)
		if in.Gate && in.Nest == 2 && in.NCalls == 0 {
			gateNotes = armGateCase(w)
		}
	}
	env, cr := w.Create(name, in.Tasks, in.Launch, in.Cfg, calls, deployTimeout, hang)
	gateDiag, lostUpdate := gateNotes()
	defer func() { w.YAMLOf, w.PathOf = nil, nil }() // the role paths are needed until the case is over
	var obs []StepObs
	first := StepObs{Err: cr.Err != nil, Hang: cr.Hang, Reported: env.Reported(), Cmded: env.Commanded("CONFIGURE"), Tasks: [][2]int{}}
	if cr.Err != nil {
		first.ErrText = cr.Err.Error()
	}
	alive := cr.Err == nil && !cr.Hang && env.E != nil
	// The core can lose the verdict of resourceOffers (non-blocking send to acquireTasks, which may
	// not be listening yet): acquireTasks then blocks for ever holding the deploy mutex, this
	// DEPLOY times out with nothing launched and every later creation blocks in RefreshClasses.
	// That is a scheduling accident outside the model (reported separately); the worker process is
	// replaced and the case repeated.  Signature: no state event at all, or tasks to launch on
	// offered hosts and not a single ACCEPT.
	launchable := len(in.Tasks) > 0
	for _, l := range in.Launch {
		if l == "nooffer" {
			launchable = false
		}
	}
	if (cr.Hang && len(first.Reported) == 0) || (!alive && launchable && env.Accepts() == 0) {
		dumpStacks(fmt.Sprintf("case %d: deployment verdict lost / core wedged", idx))
		return nil, true, false
	}
	if (cr.Err != nil || cr.Hang) && deploymentScriptedToSucceed(in) {
		first.Diag = fmt.Sprintf("accepts=%d %s", env.Accepts(), strings.Join(env.Trace(), "; "))
	}
	if gateDiag != "" {
		first.Diag = strings.TrimSpace("gate: " + gateDiag + ". " + first.Diag)
	}
	if cr.Err != nil && !cr.Hang && deploymentScriptedToSucceed(in) && strings.Contains(cr.Err.Error(), "workflow deployment timed out") &&
		env.AllRunActive(in.Launch) && !lostUpdate { // a forced lost update (gate.go) is no accident
		accident = true
	}
	if cr.Hang {
		first.State = c0203.EnvStateCode[env.State()]
	}
	if cr.Hang && len(in.Tasks) > 0 {
		dumpStacks(fmt.Sprintf("case %d: creation did not return", idx))
	}
	view := make([][2]int, len(in.Tasks))
	if alive {
		first.State = c0203.EnvStateCode[env.State()]
		for i := range view {
			view[i] = [2]int{1, 3}
		}
		want := expectAfterCmd(view, "CONFIGURE", in.Cfg)
		env.AwaitReplies(settleFor) // the replies are applied after the request has returned, in any order
		view = env.Settle(want, settleFor)
		first.Tasks = view
		first.Unsettled = !sameView(view, want)
		first.SlowMs = slowMs(t0)
	}
	obs = append(obs, first)
	if heavy {
		// let the background acquireTasks finish before the next case needs the deploy mutex
		if d := 3300*time.Millisecond - time.Since(t0); d > 0 {
			time.Sleep(d)
		}
	}
	if !alive {
		env.Finish(false)
		return obs, false, accident
	}
	if in.Bystander > 0 {
		if d := runBystander(w, name+"b", in.Bystander); d != "" {
			obs[0].Diag = strings.TrimSpace(obs[0].Diag + " bystander: " + d)
		}
	}
	for _, op := range in.Ops {
		var so StepObs
		env.Mark()
		switch op.Kind {
		case "cmd":
			env.SetOutcomesFor(op.Ev, c0203.ParseOutcomes(simOutcomes(op.Oc), len(in.Tasks)))
			registerGone(env, op.Oc)
			h := 3 * time.Second
			if slow(op.Oc) {
				h = 140 * time.Second
			}
			before := c0203.EnvStateCode[env.State()]
			t1 := time.Now()
			cr := env.Control(op.Ev, h)
			registerGone(env, nil)
			so.Hang = cr.Hang
			so.Err = cr.Err != nil
			if cr.Err != nil {
				so.ErrText = cr.Err.Error()
			}
			so.State = c0203.EnvStateCode[cr.State]
			so.Reported = env.Reported()
			so.Cmded = env.Commanded(op.Ev)
			want := view
			if srcOf[op.Ev] == before {
				want = expectAfterCmd(view, op.Ev, op.Oc)
			}
			env.AwaitReplies(settleFor)
			view = env.Settle(want, settleFor)
			so.Tasks = view
			so.Unsettled = !sameView(view, want)
			so.SlowMs = slowMs(t1)
		case "kill":
			prev := env.State()
			crit := op.I < len(in.Tasks) && in.Tasks[op.I].Crit
			if op.I < len(env.TaskIds) && env.TaskIds[op.I] != "" {
				tid := env.TaskIds[op.I]
				if ex := w.ExecutorOf(tid); op.Via == "executor" && ex != "" {
					w.Sim.FailExecutor(w.AgentOf(tid), ex)
				} else {
					w.Sim.FailTask(tid, 3 /* TASK_FAILED */)
				}
			}
			want := append([][2]int(nil), view...)
			if op.I < len(want) {
				want[op.I] = [2]int{4, 1}
			}
			view = env.Settle(want, settleFor)
			if crit {
				// the watcher waits 500 ms before it asks for GO_ERROR
				waitFor(6*time.Second, func() bool { return env.State() == "ERROR" })
			} else {
				time.Sleep(5 * time.Millisecond)
			}
			_ = prev
			so.State = c0203.EnvStateCode[env.State()]
			so.Reported = env.Reported()
			so.Cmded = []int{}
			so.Tasks = view
		}
		obs = append(obs, so)
		if so.Hang || so.State == 5 {
			break
		}
	}
	last := obs[len(obs)-1]
	env.Finish(!last.Hang)
	return obs, false, false
}

// runBystander creates a flat environment of n non-critical tasks next to the case's environment and
// destroys it again; returns a diagnosis when that did not go as it should (not compared).
func runBystander(w *c0203.World, name string, n int) string {
	yamlOf, pathOf := w.YAMLOf, w.PathOf
	w.YAMLOf, w.PathOf = nil, nil
	defer func() { w.YAMLOf, w.PathOf = yamlOf, pathOf }()
	ts := make([]c0203.Task, n)
	launch, cfg := make([]string, n), make([]string, n)
	for i := range ts {
		ts[i] = c0203.Task{Crit: false, Mode: modes[i%3], Host: 1 + i%3}
		launch[i], cfg[i] = "run", "ack"
	}
	benv, cr := w.Create(name, ts, launch, cfg, nil, deployTimeoutOK, 13500*time.Millisecond)
	diag := ""
	if cr.Err != nil || cr.Hang {
		diag = fmt.Sprintf("not created (hang=%v err=%v)", cr.Hang, cr.Err)
	}
	benv.Finish(!cr.Hang) // forced destroy: KillTasks of its tasks
	waitFor(3*time.Second, func() bool {
		for _, t := range w.Sim.Taskman.VerifRoster() {
			if t.EnvId == benv.Id.String() {
				return false
			}
		}
		return true
	})
	return diag
}

// simOutcomes: what the simulated executors are told: a task that is gone is silent there, the answer
// (if any) comes from the real executor message handler.
func simOutcomes(oc []string) []string {
	out := make([]string, len(oc))
	for i, o := range oc {
		if o == "gone" {
			o = "silent"
		}
		out[i] = o
	}
	return out
}

var (
	goneMu  sync.Mutex
	goneIds = map[string]bool{} // task ids whose next transition command goes to the real executor handler
)

func registerGone(env *c0203.Env, oc []string) {
	goneMu.Lock()
	defer goneMu.Unlock()
	goneIds = map[string]bool{}
	for i, o := range oc {
		if o == "gone" && i < len(env.TaskIds) && env.TaskIds[i] != "" {
			goneIds[env.TaskIds[i]] = true
		}
	}
}

// installRealExecutor: every transition command for a task registered as gone is also given to the
// real executor message handler, in an executor that runs no such task; its answers go to the core.
func installRealExecutor(w *c0203.World) {
	w.Sim.OnMsg = func(m *simcore.MsgRecord) {
		if m == nil || m.Name != "MesosCommand_Transition" {
			return
		}
		goneMu.Lock()
		hit := false
		for _, tid := range m.TaskIds {
			if goneIds[tid] {
				hit = true
				delete(goneIds, tid) // once: the command the harness requested
			}
		}
		goneMu.Unlock()
		if !hit {
			return
		}
		raw, agent, ex := append([]byte(nil), m.Raw...), m.AgentId, m.ExecutorId
		go func() {
			for _, data := range realExecutorAnswers(map[string]executable.Task{}, raw, 300*time.Millisecond) {
				w.Sim.ExecutorMessage(agent, ex, data)
			}
		}()
	}
}

func sameView(a, b [][2]int) bool {
	if len(a) != len(b) {
		return false
	}
	for i := range a {
		if a[i] != b[i] {
			return false
		}
	}
	return true
}

func slowMs(since time.Time) int {
	if d := time.Since(since); d > 500*time.Millisecond {
		return int(d.Milliseconds())
	}
	return 0
}

var dumped bool

// dumpStacks writes all goroutine stacks to the worker log, once (diagnosis of unexpected hangs).
func dumpStacks(why string) {
	if dumped {
		return
	}
	dumped = true
	fmt.Fprintf(os.Stderr, "\n==== %s: goroutine dump ====\n", why)
	_ = pprof.Lookup("goroutine").WriteTo(os.Stderr, 2)
}

var srcOf = map[string]int{"CONFIGURE": 2, "START": 3, "STOP": 4, "RESET": 3}

func waitFor(d time.Duration, f func() bool) bool {
	end := time.Now().Add(d)
	for {
		if f() {
			return true
		}
		if time.Now().After(end) {
			return false
		}
		time.Sleep(2 * time.Millisecond)
	}
}

// ---------------------------------------------------------------- Coq terms

var modeTerm = map[string]string{"basic": "Basic", "direct": "Direct", "fairmq": "Fairmq"}
var launchTerm = map[string]string{"run": "LRun", "": "LRun", "fail": "LFail", "silent": "LSilent", "nooffer": "LNoOffer", "nores": "LNoRes"}
var outTerm = map[string]string{"ack": "Ack", "": "Ack", "errsrc": "ErrSrc", "errerr": "ErrErr", "sendfail": "SendFail", "silent": "Silent", "dies": "Dies",
	// gone: the task's process has died and the executor, which outlives its tasks, no longer runs it,
	// while its TASK_FAILED update has not reached the core: the command is handed to the REAL executor
	// message handler (executor.VerifC02HandleMessage, no such task among its active tasks) and whatever
	// it answers is delivered to the core.  For the model that is silence: a faithful executor does not
	// answer for a task it does not run (gen/Gen_ExecutorReplies.v), the core times out.
	"gone": "Silent"}

func mapList(xs []string, m map[string]string) string {
	items := make([]string, len(xs))
	for i, x := range xs {
		items[i] = m[x]
	}
	return gen.List(items)
}

func intList(xs []int) string {
	items := make([]string, len(xs))
	for i, x := range xs {
		items[i] = fmt.Sprintf("%d", x)
	}
	return gen.List(items)
}

func obsTerm(o StepObs) string {
	ts := make([]string, len(o.Tasks))
	for i, t := range o.Tasks {
		ts[i] = fmt.Sprintf("(%d, %d)", t[0], t[1])
	}
	return fmt.Sprintf("(mkSO %d %s %s %s %s %s)", o.State, gen.Bool(o.Err), gen.Bool(o.Hang), intList(o.Reported), intList(o.Cmded), gen.List(ts))
}

func caseTerm(in Input, obs []StepObs) string {
	ts := make([]string, len(in.Tasks))
	for i, t := range in.Tasks {
		ts[i] = fmt.Sprintf("mkT %s %s %d", gen.Bool(t.Crit), modeTerm[t.Mode], t.Host)
	}
	ops := make([]string, len(in.Ops))
	for i, o := range in.Ops {
		if o.Kind == "kill" {
			ops[i] = fmt.Sprintf("OKill %d%%nat", o.I)
		} else {
			ops[i] = fmt.Sprintf("OCmd %s %s", o.Ev, mapList(o.Oc, outTerm))
		}
	}
	os := make([]string, len(obs))
	for i, o := range obs {
		os[i] = obsTerm(o)
	}
	return fmt.Sprintf("mkCase (mkIn %s %d %s %s %s) %s", gen.List(ts), in.NCalls, mapList(in.Launch, launchTerm),
		mapList(in.Cfg, outTerm), gen.List(ops), gen.List(os))
}

// ---------------------------------------------------------------- generators

var modes = []string{"basic", "direct", "fairmq"}

func genTasks(r *gen.Rand, n int, critPattern int) []c0203.Task {
	ts := make([]c0203.Task, n)
	for i := range ts {
		crit := true
		switch critPattern {
		case 0: // all critical
		case 1: // none critical
			crit = false
		case 2: // exactly one critical
			crit = i == 0
		default:
			crit = r.Chance(1, 2)
		}
		ts[i] = c0203.Task{Crit: crit, Mode: modes[r.Intn(3)], Host: r.Range(1, 3)}
	}
	if critPattern == 2 && n > 1 { // put the critical one anywhere
		j := r.Intn(n)
		ts[0].Crit, ts[j].Crit = ts[j].Crit, ts[0].Crit
	}
	return ts
}

func acks(n int) []string {
	out := make([]string, n)
	for i := range out {
		out[i] = "ack"
	}
	return out
}

// failure kinds available in a tier: silence and death cost the coded 90/120 s response timeout
func failKinds(thorough bool) []string {
	if thorough {
		return []string{"errsrc", "errerr", "sendfail", "errsrc", "errerr", "sendfail", "silent", "dies", "gone"}
	}
	return []string{"errsrc", "errerr", "sendfail"}
}

// outcome assignment aimed at the classification: who fails (nobody / non-critical only / a
// critical one / several) among the tasks that are alive
func genOutcomes(r *gen.Rand, ts []c0203.Task, alive []bool, kinds []string) []string {
	oc := acks(len(ts))
	var crit, non []int
	for i, t := range ts {
		if !alive[i] {
			continue
		}
		if t.Crit {
			crit = append(crit, i)
		} else {
			non = append(non, i)
		}
	}
	pick := func(xs []int) int { return xs[r.Intn(len(xs))] }
	switch r.Intn(10) {
	case 0, 1, 2: // everybody acknowledges
	case 3, 4: // one non-critical fails
		if len(non) > 0 {
			oc[pick(non)] = r.Pick(kinds)
		}
	case 5: // every non-critical fails
		for _, i := range non {
			oc[i] = r.Pick(kinds)
		}
	case 6, 7: // one critical fails
		if len(crit) > 0 {
			oc[pick(crit)] = r.Pick(kinds)
		}
	case 8: // one of each
		if len(crit) > 0 {
			oc[pick(crit)] = r.Pick(kinds)
		}
		if len(non) > 0 {
			oc[pick(non)] = r.Pick(kinds)
		}
	case 9: // independent
		for i := range oc {
			if alive[i] && r.Chance(1, 3) {
				oc[i] = r.Pick(kinds)
			}
		}
	}
	// also script dead tasks sometimes: they must not be commanded, so it must not matter
	for i := range oc {
		if !alive[i] && r.Chance(1, 2) {
			oc[i] = r.Pick(kinds)
		}
	}
	return oc
}

func hasFailure(oc []string, ts []c0203.Task, alive []bool) (critFail, anyFail bool) {
	for i, o := range oc {
		if alive[i] && o != "ack" {
			anyFail = true
			if ts[i].Crit {
				critFail = true
			}
		}
	}
	return
}

func genCase(r *gen.Rand, thorough bool, allowSlow bool) (Input, string) {
	kinds := failKinds(thorough && allowSlow)
	var in Input
	kind := "walk"
	n := []int{0, 1, 1, 2, 2, 2, 3, 3, 4, 5, 6}[r.Intn(11)]
	in.Tasks = genTasks(r, n, r.Intn(5))
	in.NCalls = r.Intn(2)
	in.Launch = make([]string, n)
	for i := range in.Launch {
		in.Launch[i] = "run"
	}
	alive := make([]bool, n)
	for i := range alive {
		alive[i] = true
	}
	in.Cfg = acks(n)
	deployFails := false
	if n > 0 && r.Chance(1, 7) { // deployment trouble for one task (sometimes two)
		kind = "deployfail"
		lk := []string{"fail", "silent", "nooffer", "nores"}
		i := r.Intn(n)
		in.Launch[i] = lk[r.Intn(4)]
		if in.Tasks[i].Crit && (in.Launch[i] == "nooffer" || in.Launch[i] == "nores") && r.Chance(3, 4) {
			in.Launch[i] = lk[r.Intn(2)] // the retry loop costs 3 s: keep it rare
		}
		if n > 1 && r.Chance(1, 4) {
			in.Launch[r.Intn(n)] = lk[r.Intn(2)]
		}
		deployFails = true
	}
	if n == 0 {
		kind = "notasks"
	}
	if !deployFails && n > 0 && r.Chance(1, 4) {
		in.Cfg = simOutcomes(genOutcomes(r, in.Tasks, alive, kinds)) // (the CONFIGURE of the creation has no "gone")
	}
	// model-independent stop rule for the walk: it ends when a request is scripted to fail (the
	// harness stops anyway when the environment is in ERROR)
	state := "CONFIGURED"
	steps := r.Range(1, 7)
	for s := 0; s < steps; s++ {
		var choices []string
		switch state {
		case "CONFIGURED":
			choices = []string{"START", "START", "RESET", "kill"}
		case "RUNNING":
			choices = []string{"STOP", "STOP", "kill"}
		case "DEPLOYED":
			choices = []string{"CONFIGURE", "CONFIGURE", "kill"}
		}
		c := choices[r.Intn(len(choices))]
		if r.Chance(1, 40) { // a request the state does not allow
			c = []string{"START", "STOP", "RESET", "CONFIGURE"}[r.Intn(4)]
		}
		if c == "kill" {
			var cand []int
			for i := range in.Tasks {
				if alive[i] && (!in.Tasks[i].Crit || r.Chance(1, 30)) {
					cand = append(cand, i)
				}
			}
			if len(cand) == 0 {
				continue
			}
			i := cand[r.Intn(len(cand))]
			alive[i] = false
			in.Ops = append(in.Ops, Op{Kind: "kill", I: i})
			if in.Tasks[i].Crit {
				break
			}
			continue
		}
		oc := genOutcomes(r, in.Tasks, alive, kinds)
		in.Ops = append(in.Ops, Op{Kind: "cmd", Ev: c, Oc: oc})
		for i, o := range oc {
			if alive[i] && o == "dies" {
				alive[i] = false
			}
		}
		switch c {
		case "START":
			if state == "CONFIGURED" {
				state = "RUNNING"
			}
		case "STOP":
			if state == "RUNNING" {
				state = "CONFIGURED"
			}
		case "RESET":
			if state == "CONFIGURED" {
				state = "DEPLOYED"
			}
		case "CONFIGURE":
			if state == "DEPLOYED" {
				state = "CONFIGURED"
			}
		}
	}
	// another environment's life: 1 walk in 6 with two tasks or more gets a bystander environment of at
	// least as many tasks; 1 idle death of a non-critical task in 3 is the failure of its executor
	if n >= 2 && !deployFails && r.Chance(1, 6) {
		in.Bystander = n + r.Intn(2)
	}
	for k := range in.Ops {
		if in.Ops[k].Kind == "kill" && in.Ops[k].I < n && !in.Tasks[in.Ops[k].I].Crit && r.Chance(1, 3) {
			alone := true // the tasks of one host share their executor: its failure takes them all
			for j, t := range in.Tasks {
				if j != in.Ops[k].I && t.Host == in.Tasks[in.Ops[k].I].Host {
					alone = false
				}
			}
			if alone {
				in.Ops[k].Via = "executor"
			}
		}
	}
	// shape: 1 case in 5 with two tasks or more puts its first tasks under an aggregator role; when
	// exactly the first two are and nothing else can disturb the root (no call role, every task
	// launches) the interleaving of gate.go is forced
	if n >= 2 && r.Chance(1, 5) {
		in.Nest = r.Range(2, n)
		if !nestable(in) {
			in.Nest = 0
		} else if in.Nest == 2 && in.NCalls == 0 && !deployFails {
			in.Gate = true
		}
	}
	return in, kind
}

// aimed at the zero- and one-target decision points: non-critical tasks die one after the other
// between the requests until one / none is left, then a command is issued
func genFewTargets(r *gen.Rand, thorough bool) (Input, string) {
	kinds := failKinds(false)
	n := r.Range(1, 4)
	var in Input
	in.Tasks = genTasks(r, n, 1) // none critical
	if r.Chance(1, 3) && n >= 2 {
		in.Tasks[r.Intn(n)].Crit = true
	}
	in.NCalls = r.Intn(2)
	in.Launch = make([]string, n)
	for i := range in.Launch {
		in.Launch[i] = "run"
	}
	in.Cfg = acks(n)
	alive := make([]bool, n)
	for i := range alive {
		alive[i] = true
	}
	leave := r.Intn(2) // survivors among the non-critical tasks
	state := "CONFIGURED"
	if r.Chance(1, 2) {
		in.Ops = append(in.Ops, Op{Kind: "cmd", Ev: "START", Oc: acks(n)})
		state = "RUNNING"
	} else if r.Chance(1, 3) {
		in.Ops = append(in.Ops, Op{Kind: "cmd", Ev: "RESET", Oc: acks(n)})
		state = "DEPLOYED"
	}
	var non []int
	for i, t := range in.Tasks {
		if !t.Crit {
			non = append(non, i)
		}
	}
	for len(non) > leave {
		j := r.Intn(len(non))
		in.Ops = append(in.Ops, Op{Kind: "kill", I: non[j]})
		alive[non[j]] = false
		non = append(non[:j], non[j+1:]...)
	}
	ev := map[string]string{"CONFIGURED": []string{"START", "RESET"}[r.Intn(2)], "RUNNING": "STOP", "DEPLOYED": "CONFIGURE"}[state]
	oc := acks(n)
	if len(non) > 0 && r.Chance(2, 3) {
		oc[non[0]] = r.Pick(kinds)
	}
	in.Ops = append(in.Ops, Op{Kind: "cmd", Ev: ev, Oc: oc})
	if r.Chance(1, 2) { // and one more request if that one went through
		next := map[string]string{"START": "STOP", "STOP": "START", "RESET": "CONFIGURE", "CONFIGURE": "START"}[ev]
		in.Ops = append(in.Ops, Op{Kind: "cmd", Ev: next, Oc: acks(n)})
	}
	return in, "fewtargets"
}

// regression cases, always run first: the witnesses of the repaired defects C02-a, C02-a2, C02-b,
// C02-d (they must pass now; the old behaviour is monitor code 3, 4, 5, 8), the witnesses of the
// recorded DEPLOY findings C02-c / C02-a3 and of the remaining refutation theorem in props/C02.v
func corpus() []job {
	t := func(crit bool, mode string, host int) c0203.Task { return c0203.Task{Crit: crit, Mode: mode, Host: host} }
	var js []job
	add := func(kind string, in Input) { js = append(js, job{Kind: kind, In: in}) }
	// C02-b (repaired): one non-critical task, error reply at START: the run starts
	add("corpus-single-noncritical", Input{Tasks: []c0203.Task{t(false, "direct", 1)}, Launch: []string{"run"}, Cfg: []string{"ack"},
		Ops: []Op{{Kind: "cmd", Ev: "START", Oc: []string{"errsrc"}}}})
	// C02-a (repaired): all (non-critical) tasks dead, START has nothing to command and succeeds
	add("corpus-zero-targets", Input{Tasks: []c0203.Task{t(false, "basic", 1), t(false, "fairmq", 2)}, Launch: []string{"run", "run"}, Cfg: []string{"ack", "ack"},
		Ops: []Op{{Kind: "kill", I: 0}, {Kind: "kill", I: 1}, {Kind: "cmd", Ev: "START", Oc: []string{"ack", "ack"}}}})
	// C02-a2 (repaired): workflow with a call role only: CONFIGURE returns at once
	add("corpus-no-tasks-configure", Input{NCalls: 1, Tasks: []c0203.Task{}, Launch: []string{}, Cfg: []string{}})
	// C02-a3: workflow without any role: DEPLOY times out
	add("corpus-no-roles", Input{Tasks: []c0203.Task{}, Launch: []string{}, Cfg: []string{}})
	// C02-c: the non-critical task fails at launch, the critical one runs
	add("corpus-deploy-noncritical", Input{Tasks: []c0203.Task{t(true, "direct", 1), t(false, "basic", 2)}, Launch: []string{"run", "fail"}, Cfg: []string{"ack", "ack"}})
	// C02-d (repaired): critical failure at START: ERROR, and the request returns the error
	add("corpus-critical-failure", Input{Tasks: []c0203.Task{t(true, "fairmq", 1), t(false, "basic", 2)}, Launch: []string{"run", "run"}, Cfg: []string{"ack", "ack"},
		Ops: []Op{{Kind: "cmd", Ev: "START", Oc: []string{"errerr", "ack"}}}})
	// the partial theorem's side: two targets, the non-critical one fails in every way, all goes on
	add("corpus-noncritical-tolerated", Input{Tasks: []c0203.Task{t(true, "direct", 1), t(false, "fairmq", 1)}, Launch: []string{"run", "run"}, Cfg: []string{"ack", "errerr"},
		Ops: []Op{{Kind: "cmd", Ev: "START", Oc: []string{"ack", "sendfail"}}, {Kind: "cmd", Ev: "STOP", Oc: []string{"ack", "errsrc"}},
			{Kind: "cmd", Ev: "RESET", Oc: []string{"ack", "errerr"}}, {Kind: "cmd", Ev: "CONFIGURE", Oc: []string{"ack", "ack"}}}})
	// critical launch failures: failed, silent, host not offered
	add("corpus-deploy-critical-fail", Input{Tasks: []c0203.Task{t(true, "direct", 1), t(true, "basic", 2)}, Launch: []string{"run", "fail"}, Cfg: []string{"ack", "ack"}})
	add("corpus-deploy-critical-nooffer", Input{Tasks: []c0203.Task{t(true, "direct", 1), t(false, "basic", 2)}, Launch: []string{"nooffer", "run"}, Cfg: []string{"ack", "ack"}})
	// C02-b (repaired), the configureTasks side: the only task is non-critical and fails the CONFIGURE
	// of the creation, then STOP, RESET and a second CONFIGURE in every failure kind
	add("corpus-single-noncritical-all", Input{Tasks: []c0203.Task{t(false, "fairmq", 2)}, Launch: []string{"run"}, Cfg: []string{"errerr"},
		Ops: []Op{{Kind: "cmd", Ev: "START", Oc: []string{"sendfail"}}, {Kind: "cmd", Ev: "STOP", Oc: []string{"errsrc"}},
			{Kind: "cmd", Ev: "RESET", Oc: []string{"errerr"}}, {Kind: "cmd", Ev: "CONFIGURE", Oc: []string{"errsrc"}}}})
	// the single commanded task is critical: its failure still fails the command (both branches)
	add("corpus-single-critical-configure", Input{Tasks: []c0203.Task{t(true, "direct", 1)}, Launch: []string{"run"}, Cfg: []string{"errsrc"}})
	add("corpus-single-critical-stop", Input{Tasks: []c0203.Task{t(true, "basic", 3)}, Launch: []string{"run"}, Cfg: []string{"ack"},
		Ops: []Op{{Kind: "cmd", Ev: "START", Oc: []string{"ack"}}, {Kind: "cmd", Ev: "STOP", Oc: []string{"sendfail"}}}})
	// C02-a / C02-a2 (repaired): every transition with nothing to command, through ControlEnvironment
	add("corpus-zero-targets-walk", Input{Tasks: []c0203.Task{t(false, "direct", 1), t(false, "basic", 3)}, Launch: []string{"run", "run"}, Cfg: []string{"ack", "ack"},
		Ops: []Op{{Kind: "cmd", Ev: "START", Oc: []string{"ack", "ack"}}, {Kind: "kill", I: 1}, {Kind: "kill", I: 0},
			{Kind: "cmd", Ev: "STOP", Oc: []string{"errsrc", "ack"}}, {Kind: "cmd", Ev: "RESET", Oc: []string{"ack", "ack"}},
			{Kind: "cmd", Ev: "CONFIGURE", Oc: []string{"ack", "sendfail"}}, {Kind: "cmd", Ev: "START", Oc: []string{"ack", "ack"}}}})
	add("corpus-no-tasks-walk", Input{NCalls: 1, Tasks: []c0203.Task{}, Launch: []string{}, Cfg: []string{},
		Ops: []Op{{Kind: "cmd", Ev: "START", Oc: []string{}}, {Kind: "cmd", Ev: "STOP", Oc: []string{}}, {Kind: "cmd", Ev: "RESET", Oc: []string{}},
			{Kind: "cmd", Ev: "CONFIGURE", Oc: []string{}}}})
	// status aggregation under concurrent updates (gate.go): two levels of aggregation, the last two
	// TASK_RUNNING updates interleaved inside the merge of the root; critical and non-critical tasks,
	// with and without a third task outside the group that reports first... and after
	add("corpus-gate-two-critical", Input{Nest: 2, Gate: true, Tasks: []c0203.Task{t(true, "direct", 1), t(true, "fairmq", 2)}, Launch: []string{"run", "run"}, Cfg: []string{"ack", "ack"},
		Ops: []Op{{Kind: "cmd", Ev: "START", Oc: []string{"ack", "ack"}}}})
	add("corpus-gate-noncritical", Input{Nest: 2, Gate: true, Tasks: []c0203.Task{t(false, "basic", 3), t(true, "direct", 1)}, Launch: []string{"run", "run"}, Cfg: []string{"ack", "ack"}})
	add("corpus-nested-walk", Input{Nest: 2, NCalls: 1, Tasks: []c0203.Task{t(true, "direct", 1), t(false, "fairmq", 2), t(true, "basic", 3)}, Launch: []string{"run", "run", "run"}, Cfg: []string{"ack", "errsrc", "ack"},
		Ops: []Op{{Kind: "cmd", Ev: "START", Oc: []string{"ack", "sendfail", "ack"}}, {Kind: "kill", I: 1}, {Kind: "cmd", Ev: "STOP", Oc: []string{"ack", "ack", "errerr"}}}})
	// the roster stays intact while other environments come and go and executors fail: a bystander
	// environment with more tasks than this one is created after it and torn down before a command to
	// several tasks in which a critical one fails in each of the ways (the classification finds the
	// critical trait through the roster); the same with the executor of a non-critical task failing
	add("corpus-bystander-critical-errerr", Input{Bystander: 4, Tasks: []c0203.Task{t(true, "direct", 1), t(true, "fairmq", 2), t(false, "basic", 3)}, Launch: []string{"run", "run", "run"}, Cfg: []string{"ack", "ack", "ack"},
		Ops: []Op{{Kind: "cmd", Ev: "START", Oc: []string{"errerr", "ack", "ack"}}}})
	add("corpus-bystander-critical-sendfail", Input{Bystander: 3, Tasks: []c0203.Task{t(false, "basic", 2), t(true, "direct", 1)}, Launch: []string{"run", "run"}, Cfg: []string{"ack", "ack"},
		Ops: []Op{{Kind: "cmd", Ev: "START", Oc: []string{"ack", "ack"}}, {Kind: "cmd", Ev: "STOP", Oc: []string{"ack", "sendfail"}}}})
	add("corpus-bystander-reset-configure", Input{Bystander: 5, Nest: 2, Tasks: []c0203.Task{t(true, "direct", 1), t(true, "basic", 3), t(true, "fairmq", 2), t(false, "fairmq", 1)}, Launch: []string{"run", "run", "run", "run"}, Cfg: []string{"ack", "ack", "ack", "errsrc"},
		Ops: []Op{{Kind: "cmd", Ev: "RESET", Oc: []string{"ack", "ack", "ack", "ack"}}, {Kind: "cmd", Ev: "CONFIGURE", Oc: []string{"ack", "ack", "errsrc", "ack"}}}})
	add("corpus-executor-failure-then-critical", Input{Tasks: []c0203.Task{t(true, "direct", 1), t(true, "fairmq", 2), t(false, "basic", 3), t(true, "basic", 1)}, Launch: []string{"run", "run", "run", "run"}, Cfg: []string{"ack", "ack", "ack", "ack"},
		Ops: []Op{{Kind: "kill", I: 2, Via: "executor"}, {Kind: "cmd", Ev: "START", Oc: []string{"errsrc", "errerr", "ack", "sendfail"}}}})
	add("corpus-nested-deploy-noncritical", Input{Nest: 2, Tasks: []c0203.Task{t(true, "direct", 1), t(false, "basic", 2)}, Launch: []string{"run", "fail"}, Cfg: []string{"ack", "ack"}})
	return js
}

// corpusSlow: cases that cost the coded 90 s / 120 s response time-out on a correct tree (thorough tier
// and the driver's extended search only): a command reaches the executor of a critical task that is
// gone - the real executor message handler decides what the core hears
func corpusSlow() []job {
	t := func(crit bool, mode string, host int) c0203.Task {
		return c0203.Task{Crit: crit, Mode: mode, Host: host}
	}
	var js []job
	add := func(kind string, in Input) { js = append(js, job{Kind: kind, In: in}) }
	add("corpus-gone-critical-start", Input{Tasks: []c0203.Task{t(true, "direct", 1), t(false, "basic", 2)}, Launch: []string{"run", "run"}, Cfg: []string{"ack", "ack"},
		Ops: []Op{{Kind: "cmd", Ev: "START", Oc: []string{"gone", "ack"}}}})
	add("corpus-gone-single-critical-reset", Input{Tasks: []c0203.Task{t(true, "fairmq", 3)}, Launch: []string{"run"}, Cfg: []string{"ack"},
		Ops: []Op{{Kind: "cmd", Ev: "RESET", Oc: []string{"gone"}}}})
	add("corpus-gone-critical-stop", Input{Tasks: []c0203.Task{t(false, "direct", 1), t(true, "basic", 2), t(true, "fairmq", 3)}, Launch: []string{"run", "run", "run"}, Cfg: []string{"ack", "ack", "ack"},
		Ops: []Op{{Kind: "cmd", Ev: "START", Oc: []string{"ack", "ack", "ack"}}, {Kind: "cmd", Ev: "STOP", Oc: []string{"gone", "ack", "gone"}}}})
	return js
}

// ---------------------------------------------------------------- workers

func buildDir() string {
	if d := os.Getenv("VERIF_BUILD"); d != "" {
		return d
	}
	return "/verif/build"
}

func childMain(inFile, outFile string, wid int) {
	raw, err := os.ReadFile(inFile)
	if err != nil {
		fmt.Fprintln(os.Stderr, err)
		os.Exit(2)
	}
	var jobs []job
	if err := json.Unmarshal(raw, &jobs); err != nil {
		fmt.Fprintln(os.Stderr, err)
		os.Exit(2)
	}
	w, err := c0203.NewWorld(filepath.Join(buildDir(), "sim", fmt.Sprintf("c02w%d", wid)), 3, os.Getenv("SIM_VERBOSE") != "")
	if err != nil {
		fmt.Fprintln(os.Stderr, "world:", err)
		os.Exit(2)
	}
	f, err := os.Create(outFile)
	if err != nil {
		fmt.Fprintln(os.Stderr, err)
		os.Exit(2)
	}
	installRealExecutor(w)
	enc := json.NewEncoder(f)
	// warm-up: one small environment through every transition before the first case (first use of the
	// core's lazily initialised parts, template and class caches, the simulated master's first offers)
	runCaseOnce(w, 1000000+wid, 0, Input{Tasks: []c0203.Task{{Crit: true, Mode: "direct", Host: 1}, {Crit: false, Mode: "basic", Host: 2}},
		Launch: []string{"run", "run"}, Cfg: []string{"ack", "ack"},
		Ops: []Op{{Kind: "cmd", Ev: "START", Oc: []string{"ack", "ack"}}, {Kind: "cmd", Ev: "STOP", Oc: []string{"ack", "ack"}}}})
	for _, j := range jobs {
		obs, wedged, reruns := runCase(w, j.Idx, j.In)
		if wedged && os.Getenv("H02_LAST_TRY") == "" {
			f.Close()
			os.Exit(3) // the parent starts a fresh worker for this and the remaining cases
		}
		if obs == nil {
			obs = []StepObs{}
		}
		_ = enc.Encode(result{Idx: j.Idx, Obs: obs, Reruns: reruns}) // one line per case: a crash loses only the rest
		f.Sync()
	}
	f.Close()
	os.Exit(0)
}

var respawns int
var rerunCases = []int{} // indices of the cases run again after a DEPLOY time-out with every task ACTIVE

func runWorkers(o gen.Opts, jobs []job, workers int) map[int][]StepObs {
	if workers > len(jobs) {
		workers = len(jobs)
	}
	if workers < 1 {
		workers = 1
	}
	// deal the cases round-robin, expensive ones spread out
	parts := make([][]job, workers)
	for i, j := range jobs {
		parts[i%workers] = append(parts[i%workers], j)
	}
	var wg sync.WaitGroup
	res := map[int][]StepObs{}
	var mu sync.Mutex
	for wi := range parts {
		wi := wi
		wg.Add(1)
		go func() {
			defer wg.Done()
			todo := parts[wi]
			for attempt := 0; attempt < 6 && len(todo) > 0; attempt++ {
				inF := filepath.Join(o.Out, fmt.Sprintf("w%d_%d_in.json", wi, attempt))
				outF := filepath.Join(o.Out, fmt.Sprintf("w%d_%d_out.json", wi, attempt))
				b, _ := json.Marshal(todo)
				_ = os.WriteFile(inF, b, 0o644)
				os.Remove(outF)
				cmd := exec.Command(os.Args[0], "-child", inF, "-childout", outF, "-wid", fmt.Sprint(wi), "-out", o.Out)
				cmd.Env = os.Environ()
				if attempt == 5 {
					cmd.Env = append(cmd.Env, "H02_LAST_TRY=1")
				}
				logf, _ := os.Create(filepath.Join(o.Out, fmt.Sprintf("w%d_%d.log", wi, attempt)))
				cmd.Stdout, cmd.Stderr = logf, logf
				_ = cmd.Run()
				if logf != nil {
					logf.Close()
				}
				raw, _ := os.ReadFile(outF)
				got := map[int]bool{}
				for _, line := range strings.Split(string(raw), "\n") {
					if strings.TrimSpace(line) == "" {
						continue
					}
					var r result
					if json.Unmarshal([]byte(line), &r) == nil {
						mu.Lock()
						res[r.Idx] = r.Obs
						for k := 0; k < r.Reruns; k++ {
							rerunCases = append(rerunCases, r.Idx)
						}
						mu.Unlock()
						got[r.Idx] = true
					}
				}
				var rest []job
				for _, j := range todo {
					if !got[j.Idx] {
						rest = append(rest, j)
					}
				}
				if len(rest) > 0 {
					mu.Lock()
					respawns++
					mu.Unlock()
				}
				todo = rest
			}
		}()
	}
	wg.Wait()
	return res
}

func main() {
	if len(os.Args) == 3 && os.Args[1] == "-gen" {
		if strings.Contains(os.Args[2], "ExecutorReplies") {
			genExecutorReplies(os.Args[2])
		} else {
			genFilteredPure(os.Args[2])
		}
		return
	}
	child := flag.String("child", "", "worker mode: file with the jobs")
	childOut := flag.String("childout", "", "worker mode: result file")
	wid := flag.Int("wid", 0, "worker id")
	workersFlag := flag.Int("workers", 0, "worker processes (default 6 quick / 16 thorough)")
	o := gen.ParseFlags()
	if *child != "" {
		childMain(*child, *childOut, *wid)
		return
	}
	thorough := o.Tier == "thorough"
	var jobs []job
	if o.Replay != "" {
		ins, kinds, err := gen.LoadReplay(o.Replay)
		if err != nil {
			panic(err)
		}
		for i, raw := range ins {
			var in Input
			if err := json.Unmarshal(raw, &in); err != nil {
				panic(err)
			}
			jobs = append(jobs, job{Kind: kinds[i], In: in})
		}
	} else {
		jobs = corpus()
		// the driver's extended search after a proof or the correspondence broke (quick tier, 16 shards)
		// may spend the coded response time-outs, like the thorough tier
		searchMode := !thorough && o.Shards >= 16
		if thorough || searchMode {
			jobs = append(jobs, corpusSlow()...)
		}
		r := gen.NewRand(o.Seed)
		rWalk, rFew := r.Fork(), r.Fork()
		slowBudget := 0
		if thorough {
			slowBudget = 24 // cases allowed to contain silent / dying tasks (90-120 s each)
		}
		for i := 0; i < o.N; i++ {
			if i%5 == 4 {
				in, k := genFewTargets(rFew, thorough)
				jobs = append(jobs, job{Kind: k, In: in})
				continue
			}
			in, k := genCase(rWalk, thorough, slowBudget > 0)
			if slow(in.Cfg) {
				slowBudget--
			} else {
				for _, op := range in.Ops {
					if slow(op.Oc) {
						slowBudget--
						break
					}
				}
			}
			jobs = append(jobs, job{Kind: k, In: in})
		}
	}
	for i := range jobs {
		jobs[i].Idx = i
	}
	workers := *workersFlag
	if workers == 0 {
		workers = 16
		if thorough {
			workers = 24
		}
	}
	t0 := time.Now()
	res := runWorkers(o, jobs, workers)
	var cases []gen.Case
	lost := 0
	for _, j := range jobs {
		obs, ok := res[j.Idx]
		if !ok {
			lost++
			obs = []StepObs{}
		}
		cases = append(cases, gen.Case{Term: caseTerm(j.In, obs), Kind: j.Kind, Input: j.In, Obs: obs})
	}
	extra := map[string]any{"workers": workers, "cases_lost_to_worker_crash": lost, "worker_respawns_after_lost_deploy_verdict_or_crash": respawns,
		"reruns_after_deploy_timeout_with_every_task_active": len(rerunCases), "rerun_cases": rerunCases, "run_s": time.Since(t0).Seconds()}
	if err := gen.WriteCases(o, "C02", "From Verif Require Import Common RoleTree TaskCmd.", "c02_case", "report02", cases, extra); err != nil {
		fmt.Fprintln(os.Stderr, err)
		os.Exit(2)
	}
}
