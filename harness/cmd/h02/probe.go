// -gen mode of h02: a probe of the running code, written as a Coq table (coq/gen/Gen_FilteredPure.v,
// regenerated on every run).
//
// The classification of a multi-target response looks every answering task up in the task manager's
// roster (m.GetTask) and counts an error of a task it does not find as non-critical.  The roster's
// filters (roster.filtered / filteredForClass, used by KillTasks, doKillTasks, HandleExecutorFailed,
// HandleAgentFailed, Cleanup, acquireTasks) hand the roster's OWN slice to Tasks.Filtered: the roster
// stays what it is only as long as Filtered is a pure function of its receiver.  The probe calls
// Tasks.Filtered on every slice of 0..5 distinct tasks with every subset as the filter and counts
//   - receivers that are no longer what they were (an element changed),
//   - results that are not the matching tasks in order,
//   - results that share the receiver's backing array (an append to the result writes the receiver).
package main

import (
	"fmt"
	"os"

	"github.com/AliceO2Group/Control/core/task"
)

func genFilteredPure(path string) {
	cases, changed, wrong, aliased := 0, 0, 0, 0
	for n := 0; n <= 5; n++ {
		orig := make(task.Tasks, n)
		for i := range orig {
			orig[i] = &task.Task{}
		}
		for mask := 0; mask < 1<<n; mask++ {
			cases++
			m := make(task.Tasks, n, n+1) // spare capacity: an in-place result could even grow into it
			copy(m, orig)
			want := task.Tasks{}
			in := map[*task.Task]bool{}
			for i, t := range orig {
				if mask&(1<<i) != 0 {
					want = append(want, t)
					in[t] = true
				}
			}
			res := m.Filtered(func(t *task.Task) bool { return in[t] })
			same := func() bool {
				for i := range orig {
					if m[i] != orig[i] {
						return false
					}
				}
				return len(m) == n
			}
			if !same() {
				changed++
			}
			ok := len(res) == len(want)
			for i := 0; ok && i < len(want); i++ {
				ok = res[i] == want[i]
			}
			if !ok {
				wrong++
			}
			// aliasing: fill the result up to its capacity, the receiver must not see it
			copy(m, orig)
			extra := &task.Task{}
			for i := 0; i <= n; i++ {
				res = append(res, extra)
			}
			full := m[:cap(m)]
			alias := !same()
			for _, t := range full {
				if t == extra {
					alias = true
				}
			}
			if alias {
				aliased++
			}
		}
	}
	out := fmt.Sprintf(`(* regenerated on every run by harness/cmd/h02 -gen: Tasks.Filtered (core/task/tasks.go) probed on every
   slice of 0..5 distinct tasks with every subset as the filter.  filtered_probe_cases: calls made;
   filtered_receiver_changed: calls after which the receiver was no longer what it was;
   filtered_wrong_result: calls whose result was not the matching tasks in order;
   filtered_aliases_receiver: calls whose result shares the receiver's backing array (appending to
   the result writes the receiver).  The roster's filters pass the roster's own slice. *)
From Verif Require Import Common.
Open Scope N_scope.
Definition filtered_probe_cases : N := %d.
Definition filtered_receiver_changed : N := %d.
Definition filtered_wrong_result : N := %d.
Definition filtered_aliases_receiver : N := %d.
`, cases, changed, wrong, aliased)
	if err := os.WriteFile(path, []byte(out), 0o644); err != nil {
		fmt.Fprintln(os.Stderr, err)
		os.Exit(2)
	}
}
