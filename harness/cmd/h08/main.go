// h08: correspondence harness for C08 (hook order / await), C09 (hook failures) and C10 (run
// number and run timestamps).  One model (coq/model/EnvHooks.v), one case type, three monitors;
// "-prop Cxx" selects the generator mix and the report function.
//
// Cases are executed in child processes ("-child bare|sim") because a case may crash or hang the
// core (C09: that is itself a violation); the parent attributes a dead child to the case that was
// running and restarts after it.
package main

import (
	"bufio"
	"encoding/json"
	"flag"
	"fmt"
	"os"
	"os/exec"
	"path/filepath"
	"strings"
	"time"

	"github.com/AliceO2Group/Control/core/workflow/callable"

	"verif/harness/internal/gen"
)

var foreignCrashes int // crashes of the core outside the hook machinery (see runLevel), cases re-run

var (
	flagProp  = flag.String("prop", "C08", "property: C08 | C09 | C10")
	flagChild = flag.String("child", "", "internal: run as child at the given level (bare|sim)")
	flagIn    = flag.String("in", "", "internal: child input file (JSON array of inputs)")
	flagRes   = flag.String("res", "", "internal: child result file (one JSON object per line)")
	flagFrom  = flag.Int("from", 0, "internal: first input index to run")
	flagDump  = flag.Bool("dump", false, "debug: print the observations as JSON and stop")
	flagGen   = flag.String("gen", "", "regenerate a model table by running the code: startargs | hookfail")
	flagGenO  = flag.String("genout", "", "output .v file of -gen")
)

func buildDir() string {
	if d := os.Getenv("VERIF_BUILD"); d != "" {
		return d
	}
	return "/verif/build"
}

// ---------------------------------------------------------------- child

type childLine struct {
	Index int  `json:"i"`
	Begin bool `json:"begin,omitempty"`
	Obs   *Obs `json:"obs,omitempty"`
}

func childMain(level string) {
	raw, err := os.ReadFile(*flagIn)
	if err != nil {
		fmt.Fprintln(os.Stderr, err)
		os.Exit(3)
	}
	var inputs []Input
	if err := json.Unmarshal(raw, &inputs); err != nil {
		fmt.Fprintln(os.Stderr, err)
		os.Exit(3)
	}
	f, err := os.OpenFile(*flagRes, os.O_APPEND|os.O_CREATE|os.O_WRONLY, 0o644)
	if err != nil {
		fmt.Fprintln(os.Stderr, err)
		os.Exit(3)
	}
	w := bufio.NewWriter(f)
	emit := func(l childLine) {
		b, _ := json.Marshal(l)
		w.Write(b)
		w.WriteByte('\n')
		w.Flush()
	}
	workDir := filepath.Join(buildDir(), "sim", fmt.Sprintf("h08%s%d", level, os.Getpid()))
	defer os.RemoveAll(workDir)
	var runCase func(in Input) Obs
	switch level {
	case "bare":
		b, err := newBare(workDir)
		if err != nil {
			fmt.Fprintln(os.Stderr, err)
			os.Exit(3)
		}
		runCase = b.run
	case "sim":
		s, err := newSimDriver(workDir)
		if err != nil {
			fmt.Fprintln(os.Stderr, err)
			os.Exit(3)
		}
		runCase = s.run
	default:
		os.Exit(3)
	}
	for i := *flagFrom; i < len(inputs); i++ {
		emit(childLine{Index: i, Begin: true})
		obs := runCase(inputs[i])
		emit(childLine{Index: i, Obs: &obs})
		if obs.Hung {
			// goroutines of the hung case cannot be recovered: start over in a new process
			os.RemoveAll(workDir)
			os.Exit(4)
		}
	}
	os.RemoveAll(workDir)
}

// runLevel executes the inputs of one level in child processes and returns one Obs per input.
func runLevel(level string, inputs []Input, tag string) []Obs {
	out := make([]Obs, len(inputs))
	if len(inputs) == 0 {
		return out
	}
	dir := filepath.Join(buildDir(), "h08tmp")
	os.MkdirAll(dir, 0o755)
	inF := filepath.Join(dir, fmt.Sprintf("in_%s_%s_%d.json", tag, level, os.Getpid()))
	resF := filepath.Join(dir, fmt.Sprintf("res_%s_%s_%d.jsonl", tag, level, os.Getpid()))
	b, _ := json.Marshal(inputs)
	os.WriteFile(inF, b, 0o644)
	defer os.Remove(inF)
	defer os.Remove(resF)
	from := 0
	done := make([]bool, len(inputs))
	foreignRetries := map[int]int{}
	for attempts := 0; from < len(inputs) && attempts < len(inputs)+2; attempts++ {
		os.Remove(resF)
		cmd := exec.Command(os.Args[0], "-child", level, "-in", inF, "-res", resF, "-from", fmt.Sprint(from), "-out", dir)
		cmd.Env = os.Environ()
		errF, _ := os.Create(resF + ".stderr")
		cmd.Stdout = errF
		cmd.Stderr = errF
		start := time.Now()
		runErr := cmd.Run()
		errF.Close()
		_ = start
		// read what the child managed to write
		last := -1
		lastBegun := -1
		if f, err := os.Open(resF); err == nil {
			sc := bufio.NewScanner(f)
			sc.Buffer(make([]byte, 1<<20), 1<<28)
			for sc.Scan() {
				var l childLine
				if json.Unmarshal(sc.Bytes(), &l) != nil {
					continue
				}
				if l.Begin {
					lastBegun = l.Index
				} else if l.Obs != nil {
					out[l.Index] = *l.Obs
					done[l.Index] = true
					last = l.Index
				}
			}
			f.Close()
		}
		if runErr == nil {
			from = len(inputs)
			break
		}
		// the child died: the case that had begun and not finished is the culprit
		if lastBegun > last {
			tail := ""
			if eb, err := os.ReadFile(resF + ".stderr"); err == nil {
				if len(eb) > 1500 {
					eb = eb[:1500]
				}
				tail = string(eb)
			}
			// a crash of the task manager's state-update goroutine racing with the release of the task
			// (core/task/manager.go updateTaskState, seen about once in a thousand teardowns of the
			// in-process core) is not hook machinery: the case is run again, the crash is counted
			if level == "sim" && strings.Contains(tail, "task.(*Manager).updateTaskState") && foreignRetries[lastBegun] < 3 {
				foreignRetries[lastBegun]++
				foreignCrashes++
				from = lastBegun
				continue
			}
			out[lastBegun] = Obs{Crashed: true, Note: tail}
			done[lastBegun] = true
			from = lastBegun + 1
		} else if last >= 0 {
			from = last + 1 // hung case reported by the child itself, or death between cases
		} else {
			// could not even start
			eb, _ := os.ReadFile(resF + ".stderr")
			fmt.Fprintf(os.Stderr, "h08: child (%s) failed to start: %v\n%s\n", level, runErr, eb)
			os.Exit(3)
		}
	}
	os.Remove(resF + ".stderr")
	for i := range out {
		if !done[i] {
			out[i] = Obs{Note: "not run"}
		}
	}
	return out
}

// ---------------------------------------------------------------- main

func main() {
	// child mode and extra flags are parsed together with the common ones
	o := gen.ParseFlags()
	if *flagChild != "" {
		childMain(*flagChild)
		return
	}
	if *flagGen != "" {
		genMode(*flagGen, *flagGenO)
		return
	}
	prop := *flagProp
	var inputs []Input
	var kinds []string
	if o.Replay != "" {
		ins, ks, err := gen.LoadReplay(o.Replay)
		if err != nil {
			panic(err)
		}
		for i, raw := range ins {
			var in Input
			if err := json.Unmarshal(raw, &in); err != nil {
				panic(err)
			}
			inputs = append(inputs, in)
			kinds = append(kinds, ks[i])
		}
	} else {
		inputs, kinds = generate(prop, o)
	}
	obs := execute(inputs, prop)
	if *flagDump {
		b, _ := json.MarshalIndent(obs, "", " ")
		fmt.Println(string(b))
		return
	}
	var cases []gen.Case
	for i := range inputs {
		cases = append(cases, gen.Case{Term: caseTerm(inputs[i], obs[i]), Kind: kinds[i], Input: inputs[i], Obs: slimObs(obs[i])})
	}
	num := prop[1:]
	err := gen.WriteCases(o, prop, "From Verif Require Import EnvHooks.", "c08_case", "report"+num, cases,
		map[string]any{"levels": levelCount(inputs), "task_manager_crashes_rerun": foreignCrashes})
	if err != nil {
		panic(err)
	}
}

func levelCount(inputs []Input) map[string]int {
	m := map[string]int{}
	for _, in := range inputs {
		m[in.Level]++
	}
	return m
}

// execute runs every input at its level and returns the observations in input order.
func execute(inputs []Input, tag string) []Obs {
	obs := make([]Obs, len(inputs))
	byLevel := map[string][]int{}
	for i, in := range inputs {
		byLevel[in.Level] = append(byLevel[in.Level], i)
	}
	for _, i := range byLevel["parse"] {
		n, w := callable.ParseTriggerExpression(inputs[i].Expr)
		obs[i] = Obs{Name: n, Weight: int(w)}
	}
	type res struct {
		level string
		obs   []Obs
	}
	ch := make(chan res, 2)
	n := 0
	for _, level := range []string{"bare", "sim"} {
		idx := byLevel[level]
		if len(idx) == 0 {
			continue
		}
		sub := make([]Input, len(idx))
		for k, i := range idx {
			sub[k] = inputs[i]
		}
		n++
		go func(level string, sub []Input) { ch <- res{level, runLevel(level, sub, tag)} }(level, sub)
	}
	for ; n > 0; n-- {
		r := <-ch
		for k, i := range byLevel[r.level] {
			obs[i] = r.obs[k]
		}
	}
	return obs
}

// slimObs drops the bulky record list from what goes into the cases JSON (kept in the Coq term).
func slimObs(o Obs) interface{} {
	type slim struct {
		Ops     []OpObs `json:"ops,omitempty"`
		Crashed bool    `json:"crashed,omitempty"`
		Hung    bool    `json:"hung,omitempty"`
		Note    string  `json:"note,omitempty"`
		NRecs   int     `json:"nrecs"`
		Name    string  `json:"name,omitempty"`
		Weight  int     `json:"weight,omitempty"`
		Awaits  []AwaitObs `json:"awaits,omitempty"`
	}
	return slim{o.Ops, o.Crashed, o.Hung, o.Note, len(o.Recs), o.Name, o.Weight, o.Awaits}
}
