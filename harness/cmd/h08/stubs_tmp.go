package main

import "verif/harness/internal/gen"

type simDriver struct{}

func newSimDriver(workDir string) (*simDriver, error) { return &simDriver{}, nil }
func (s *simDriver) run(in Input) Obs                  { return Obs{Note: "sim not implemented"} }
func generate(prop string, o gen.Opts) ([]Input, []string) { return nil, nil }
func caseTerm(in Input, o Obs) string                  { return "TODO" }
