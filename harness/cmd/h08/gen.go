package main

// Generators.  All randomness from one splitmix64 stream; sub-streams by Fork.
// Structured stream: hook sets aimed at the decision points of the model (equal weights, sign
// boundary, await before/at/after the trigger, other transitions, unknown moments; critical and
// non-critical failures alone and together; hook tasks and their outcomes; run histories), plus a
// malformed stream for trigger expressions.

import (
	"fmt"
	"strconv"

	"verif/harness/internal/gen"
)

var fsm = map[string]map[string]string{
	"DEPLOY":         {"STANDBY": "DEPLOYED"},
	"CONFIGURE":      {"DEPLOYED": "CONFIGURED"},
	"RESET":          {"CONFIGURED": "DEPLOYED"},
	"START_ACTIVITY": {"CONFIGURED": "RUNNING"},
	"STOP_ACTIVITY":  {"RUNNING": "CONFIGURED"},
	"EXIT":           {"CONFIGURED": "DONE", "DEPLOYED": "DONE", "STANDBY": "DONE"},
	"GO_ERROR":       {"STANDBY": "ERROR", "CONFIGURED": "ERROR", "DEPLOYED": "ERROR", "RUNNING": "ERROR"},
	"RECOVER":        {"ERROR": "DEPLOYED"},
}

func validEvents(state string) []string {
	var out []string
	for _, e := range evNames {
		if _, ok := fsm[e][state]; ok {
			out = append(out, e)
		}
	}
	return out
}

var weightPool = []int{-100, -50, -5, -2, -1, -1, 0, 0, 0, 1, 1, 2, 5, 50, 100}

func wexpr(r *gen.Rand, w int) string {
	switch {
	case w < 0:
		return strconv.Itoa(w)
	case w == 0:
		return r.Pick([]string{"", "+0", "-0", ""})
	default:
		return "+" + strconv.Itoa(w)
	}
}

// plan: a walk through the state machine; returns the operations and the moments they visit
type planned struct {
	ops     []Op
	moments []string // in order of occurrence
}

func walk(r *gen.Rand, init string, n int, prefer []string, invalid bool) planned {
	var p planned
	state := init
	for i := 0; i < n; i++ {
		if state == "DONE" {
			break
		}
		if invalid && r.Chance(1, 12) {
			ev := r.Pick(append([]string{"BOGUS"}, evNames...))
			p.ops = append(p.ops, Op{Ev: ev})
			if d, ok := fsm[ev][state]; ok {
				p.moments = append(p.moments, "before_"+ev, "leave_"+state, "enter_"+d, "after_"+ev)
				state = d
			}
			continue
		}
		cands := validEvents(state)
		// EXIT ends the walk: keep it rare
		var pool []string
		for _, c := range cands {
			k := 3
			if c == "EXIT" {
				k = 1
			}
			if c == "GO_ERROR" {
				k = 1
			}
			if isIn(c, prefer) {
				k = 8
			}
			for j := 0; j < k; j++ {
				pool = append(pool, c)
			}
		}
		ev := r.Pick(pool)
		d := fsm[ev][state]
		p.ops = append(p.ops, Op{Ev: ev})
		p.moments = append(p.moments, "before_"+ev, "leave_"+state, "enter_"+d, "after_"+ev)
		state = d
	}
	return p
}

type hookProfile struct {
	maxHooks   int
	taskPct    int // percentage of hook tasks
	asyncPct   int // percentage of calls with await != trigger
	critPct    int
	bogusPct   int
	destroyPct int
}

func genHooks(r *gen.Rand, moments []string, pf hookProfile) []Hook {
	n := r.Range(0, pf.maxHooks)
	if len(moments) == 0 {
		moments = []string{"before_CONFIGURE"}
	}
	var hooks []Hook
	// a small pool of points so that collisions are frequent
	for i := 0; i < n; i++ {
		h := Hook{Id: i + 1, Kind: "call", Crit: r.Intn(100) < pf.critPct}
		tm := r.Pick(moments)
		if r.Intn(100) < pf.bogusPct {
			tm = r.Pick([]string{"before_NOTHING", "enter_NOWHERE", "leave_DONE", "after_EXITT", "before"})
		}
		if r.Intn(100) < pf.destroyPct {
			tm = r.Pick([]string{"DESTROY", "after_DESTROY"})
		}
		tw := weightPool[r.Intn(len(weightPool))]
		h.Trig = tm + wexpr(r, tw)
		if r.Intn(100) < pf.taskPct && tm != "DESTROY" && tm != "after_DESTROY" {
			h.Kind = "task"
			h.Await = h.Trig
			hooks = append(hooks, h)
			continue
		}
		if r.Intn(100) >= pf.asyncPct {
			h.Await = h.Trig
			if r.Chance(1, 4) { // same point, written differently
				h.Await = tm + wexpr(r, tw)
			}
		} else {
			switch r.Intn(10) {
			case 0, 1, 2: // same moment, other weight (later or earlier, same or other sign)
				h.Await = tm + wexpr(r, weightPool[r.Intn(len(weightPool))])
			case 3: // same moment, slightly later weight
				h.Await = tm + wexpr(r, tw+r.Range(1, 3))
			case 4, 5, 6, 7: // another moment of the plan
				h.Await = r.Pick(moments) + wexpr(r, weightPool[r.Intn(len(weightPool))])
			case 8: // the point of another hook
				if len(hooks) > 0 {
					h.Await = hooks[r.Intn(len(hooks))].Trig
				} else {
					h.Await = r.Pick(moments)
				}
			case 9: // never reached
				h.Await = r.Pick([]string{"after_NOTHING", "enter_DONE+1", "bogus", "leave_ERRORR-1"})
			}
		}
		hooks = append(hooks, h)
	}
	return hooks
}

func callIds(hooks []Hook, pred func(Hook) bool) []int {
	var out []int
	for _, h := range hooks {
		if h.Kind == "call" && pred(h) {
			out = append(out, h.Id)
		}
	}
	return out
}

func subset(r *gen.Rand, xs []int, num, den int) []int {
	var out []int
	for _, x := range xs {
		if r.Chance(num, den) {
			out = append(out, x)
		}
	}
	return out
}

// probes at every moment of the given events at weights -1, 0, +1 awaited in place
func addProbes(hooks []Hook, moments []string, weights []int) []Hook {
	seen := map[string]bool{}
	id := len(hooks) + 1
	for _, m := range moments {
		if seen[m] {
			continue
		}
		seen[m] = true
		for _, w := range weights {
			e := m
			if w != 0 {
				e = fmt.Sprintf("%s%+d", m, w)
			}
			hooks = append(hooks, Hook{Id: id, Kind: "call", Trig: e, Await: e, Crit: false})
			id++
		}
	}
	return hooks
}

func setTaskTimeouts(hooks []Hook, ops []Op) {
	// hooks that are scripted to stay silent anywhere get the short timeout
	short := map[int]bool{}
	for _, o := range ops {
		for k, v := range o.TaskOut {
			if v == "timeout" || v == "late" {
				i, _ := strconv.Atoi(k)
				short[i] = true
			}
		}
	}
	// a hook with the short time-out cannot also be scripted to succeed slowly
	for i := range ops {
		for k, v := range ops[i].TaskOut {
			if id, _ := strconv.Atoi(k); v == "okslow" && short[id] {
				ops[i].TaskOut[k] = "ok"
			}
		}
	}
	for i := range hooks {
		if hooks[i].Kind == "task" {
			if short[hooks[i].Id] {
				hooks[i].Timeout = taskTimeoutShort.String()
			} else {
				hooks[i].Timeout = "10s"
			}
		}
	}
}

func taskIdsOf(hooks []Hook) []int {
	var out []int
	for _, h := range hooks {
		if h.Kind == "task" {
			out = append(out, h.Id)
		}
	}
	return out
}

// ---------------------------------------------------------------- per property

// siblings: two to four calls awaited at ONE point (moment, weight) of the walk - triggered there
// or earlier - with different latencies; the one that returns first fails critically, fails
// non-critically or succeeds.  The await step must not return before all of them have returned.
func addSiblings(r *gen.Rand, in *Input, moments []string) {
	if len(moments) == 0 || len(in.Ops) == 0 {
		return
	}
	mi := r.Intn(len(moments))
	m := moments[mi]
	w := weightPool[r.Intn(len(weightPool))]
	point := m + wexpr(r, w)
	n := r.Range(2, 4)
	id := 0
	for _, h := range in.Hooks {
		if h.Id > id {
			id = h.Id
		}
	}
	first := id + 1
	var ids []int
	for k := 0; k < n; k++ {
		id++
		h := Hook{Id: id, Kind: "call", Trig: point, Await: point, Crit: r.Chance(1, 2)}
		if k > 0 && mi > 0 && r.Chance(1, 3) { // started at an earlier moment, awaited here
			h.Trig = moments[r.Intn(mi)] + wexpr(r, weightPool[r.Intn(len(weightPool))])
		}
		ids = append(ids, id)
		in.Hooks = append(in.Hooks, h)
	}
	mode := r.Intn(3) // what the first one to return does
	in.Hooks[len(in.Hooks)-n].Crit = mode == 0
	for i := range in.Ops {
		op := &in.Ops[i]
		if mode != 2 {
			op.Fail = append(op.Fail, first)
		}
		for k, h := range ids[1:] {
			if k%2 == 0 {
				op.Slower = append(op.Slower, h)
			} else {
				op.Slow = append(op.Slow, h)
			}
		}
	}
}

func genC08(r *gen.Rand) (Input, string) {
	init := r.Pick([]string{"STANDBY", "DEPLOYED", "DEPLOYED", "CONFIGURED", "CONFIGURED"})
	p := walk(r, init, r.Range(1, 8), nil, true)
	pf := hookProfile{maxHooks: 10, taskPct: 12, asyncPct: 45, critPct: 60, bogusPct: 4, destroyPct: 0}
	hooks := genHooks(r, p.moments, pf)
	in := Input{Level: "bare", Init: init, Hooks: hooks, Ops: p.ops}
	kind := "order"
	for i := range in.Ops {
		in.Ops[i].Slow = subset(r, callIds(hooks, func(Hook) bool { return true }), 1, 4)
		// a failing call must not change when its siblings are awaited: a third of the operations
		// with a random quarter of the calls failing
		if r.Chance(1, 3) {
			in.Ops[i].Fail = subset(r, callIds(hooks, func(Hook) bool { return true }), 1, 4)
		}
	}
	if r.Chance(1, 3) {
		addSiblings(r, &in, p.moments)
		kind = "siblings"
	}
	// time passes between the start of a call and an await point in a later operation: short declared
	// timeouts, pauses of more than twice the timeout; a call is collected with its own result however
	// long it has been waiting to be collected (nothing but Cancel ends the hand-over)
	if len(in.Ops) >= 2 && r.Chance(1, 25) {
		addPauses(&in)
		kind = "late-collection"
	}
	// hook tasks of the history time out and end afterwards in the first operation, and end well within
	// their time-out, after a while, whenever they are triggered again
	if tasks := taskIdsOf(in.Hooks); len(tasks) > 0 && len(in.Ops) >= 2 && r.Chance(1, 12) {
		for i := range in.Ops {
			out := "okdelay"
			if i == 0 {
				out = "late"
			}
			in.Ops[i].TaskOut = map[string]string{}
			for _, t := range tasks {
				in.Ops[i].TaskOut[strconv.Itoa(t)] = out
			}
		}
		kind = "retriggered-hook-task"
	}
	if r.Chance(3, 4) {
		in.Ops = append(in.Ops, Op{Ev: "LEAVE_CANCEL"})
	}
	setTaskTimeouts(in.Hooks, in.Ops)
	return in, kind
}

var taskOutcomes = []string{"ok", "ok", "exit", "invol", "timeout", "late", "okslow", "trigfail", "report", "report", "report"}

// the space of BASIC_TASK_TERMINATED reports: exit code negative / zero / positive, voluntary or
// not, final Mesos state FINISHED / FAILED / KILLED
func termReport(r *gen.Rand) string {
	code := r.Pick([]string{"-1", "-1", "-9", "0", "0", "0", "1", "3", "137"})
	return "x:" + code + ":" + r.Pick([]string{"0", "1", "1"}) + ":" + r.Pick([]string{"FINISHED", "FAILED", "KILLED"})
}

func genC09(r *gen.Rand) (Input, string) {
	init := r.Pick([]string{"STANDBY", "DEPLOYED", "DEPLOYED", "CONFIGURED", "CONFIGURED"})
	p := walk(r, init, r.Range(1, 5), nil, false)
	pf := hookProfile{maxHooks: 8, taskPct: 20, asyncPct: 30, critPct: 55, bogusPct: 2, destroyPct: 0}
	hooks := genHooks(r, p.moments, pf)
	in := Input{Level: "bare", Init: init, Hooks: hooks, Ops: p.ops}
	kind := "faults"
	tasks := taskIdsOf(hooks)
	slowTimeouts := 0
	for i := range in.Ops {
		op := &in.Ops[i]
		switch r.Intn(6) {
		case 0: // nothing fails
		case 1: // everything fails
			op.Fail = callIds(hooks, func(Hook) bool { return true })
		case 2: // only non-critical ones fail
			op.Fail = callIds(hooks, func(h Hook) bool { return !h.Crit })
			kind = "noncritical"
		default:
			op.Fail = subset(r, callIds(hooks, func(Hook) bool { return true }), 1, 3)
		}
		if r.Chance(1, 10) {
			op.Body = "fail"
		}
		for _, t := range tasks {
			if r.Chance(1, 2) {
				out := r.Pick(taskOutcomes)
				if out == "report" {
					out = termReport(r)
				}
				if out == "timeout" || out == "late" || out == "okslow" {
					if slowTimeouts >= 2 { // each costs a real time-out (25 ms) or the wait for a late event (75 ms)
						out = "exit"
					} else {
						slowTimeouts++
					}
				}
				if op.TaskOut == nil {
					op.TaskOut = map[string]string{}
				}
				op.TaskOut[strconv.Itoa(t)] = out
			}
		}
		op.Slow = subset(r, callIds(hooks, func(Hook) bool { return true }), 1, 8)
	}
	// a failed trigger command early in the history: whatever is triggered later must behave
	// (the collector of the failed group used to stay behind, former finding C09-d)
	if len(tasks) >= 1 && len(in.Ops) > 0 && r.Chance(1, 3) {
		first := &in.Ops[0]
		if first.TaskOut == nil {
			first.TaskOut = map[string]string{}
		}
		first.TaskOut[strconv.Itoa(tasks[r.Intn(len(tasks))])] = "trigfail"
		kind = "trigfail"
	}
	if r.Chance(1, 2) {
		in.Ops = append(in.Ops, Op{Ev: "LEAVE_CANCEL"})
	}
	if len(in.Ops) >= 2 && r.Chance(1, 25) {
		addPauses(&in)
		kind = "late-collection"
	}
	setTaskTimeouts(in.Hooks, in.Ops)
	return in, kind
}

func genC10(r *gen.Rand) (Input, string) {
	init := r.Pick([]string{"CONFIGURED", "CONFIGURED", "DEPLOYED"})
	p := walk(r, init, r.Range(2, 9), []string{"START_ACTIVITY", "STOP_ACTIVITY"}, false)
	pf := hookProfile{maxHooks: 4, taskPct: 0, asyncPct: 30, critPct: 80, bogusPct: 0, destroyPct: 0}
	var runMoments []string
	for _, m := range p.moments {
		runMoments = append(runMoments, m)
	}
	hooks := genHooks(r, runMoments, pf)
	hooks = addProbes(hooks, runMoments, []int{-1, 0, 1})
	in := Input{Level: "bare", Init: init, Hooks: hooks, Ops: p.ops}
	crit := callIds(hooks, func(h Hook) bool { return h.Crit })
	// half of the histories run the real START / STOP / GO_ERROR transition objects
	real := r.Chance(1, 2)
	cut := -1
	for i := range in.Ops {
		op := &in.Ops[i]
		if r.Chance(1, 5) {
			op.Fail = subset(r, crit, 1, 2)
		}
		if r.Chance(1, 8) || (real && (op.Ev == "START_ACTIVITY" || op.Ev == "STOP_ACTIVITY") && r.Chance(1, 4)) {
			op.Body = "fail"
		}
		// sometimes the watcher's path instead of a plain GO_ERROR
		if op.Ev == "GO_ERROR" && r.Chance(1, 2) {
			op.Ev = "FORCE_ERROR"
		}
		if real && (op.Ev == "START_ACTIVITY" || op.Ev == "STOP_ACTIVITY" || op.Ev == "GO_ERROR" || op.Ev == "FORCE_ERROR") {
			op.Real = true
			if op.Ev == "GO_ERROR" || op.Ev == "FORCE_ERROR" {
				op.Body = "" // the real GO_ERROR transition does nothing and cannot fail
			}
		}
		// what ControlEnvironment does after a failed transition: GO_ERROR
		if cut < 0 && op.Body == "fail" && (op.Ev == "START_ACTIVITY" || op.Ev == "STOP_ACTIVITY") && r.Chance(2, 3) {
			cut = i
		}
	}
	if cut >= 0 {
		in.Ops = append(in.Ops[:cut+1:cut+1], Op{Ev: "GO_ERROR", Real: real})
		if r.Chance(1, 2) {
			in.Ops = append(in.Ops, Op{Ev: "RECOVER"})
		}
	}
	// a run interrupted by the error watcher
	if r.Chance(1, 3) {
		in.Ops = append(in.Ops, Op{Ev: "FORCE_ERROR", Fail: subset(r, crit, 1, 2), Real: real})
	}
	if r.Chance(1, 2) {
		in.Ops = append(in.Ops, Op{Ev: "LEAVE_CANCEL"})
	}
	return in, "runs"
}

// sim level: the real CreateEnvironment, START_ACTIVITY with real tasks and TeardownEnvironment of
// the in-process core.  Hooks sit on leave_<state> (run by the teardown, all weights), on the
// moments of START_ACTIVITY, and on DESTROY / after_DESTROY as calls and as hook tasks at a few
// weights so that the two names collide; awaits in place, at another weight, at a point of a
// later operation, or nowhere (cancelled at teardown).
var destroyWeights = []int{-2, -1, 0, 0, 1, 1, 2}

func genSim(r *gen.Rand, runningPct int) (Input, string) {
	in := Input{Level: "sim", Init: "CONFIGURED"}
	running := r.Intn(100) < runningPct
	state := "CONFIGURED"
	kind := "sim-teardown"
	switch {
	case running && r.Chance(1, 6):
		in.Ops = []Op{{Ev: "START_ACTIVITY", Real: true}, {Ev: "STOP_ACTIVITY", Real: true}, {Ev: "TEARDOWN"}}
		kind = "sim-start-stop-teardown"
	case running:
		in.Ops = []Op{{Ev: "START_ACTIVITY", Real: true}, {Ev: "TEARDOWN"}}
		state = "RUNNING"
		kind = "sim-teardown-running"
	default:
		in.Ops = []Op{{Ev: "TEARDOWN"}}
	}
	id := 0
	add := func(h Hook) { id++; h.Id = id; in.Hooks = append(in.Hooks, h) }
	never := []string{"after_NOTHING", "DESTROY+1", "enter_DONE", "after_EXIT-1"}
	// leave_<state> hooks of the teardown
	for k := r.Range(0, 3); k > 0; k-- {
		tw := weightPool[r.Intn(len(weightPool))]
		trig := "leave_" + state + wexpr(r, tw)
		await := trig
		switch r.Intn(5) {
		case 0:
			await = "leave_" + state + wexpr(r, weightPool[r.Intn(len(weightPool))])
		case 1:
			await = r.Pick(never)
		}
		add(Hook{Kind: "call", Trig: trig, Await: await, Crit: r.Chance(1, 2)})
	}
	if running {
		startMoments := []string{"before_START_ACTIVITY", "leave_CONFIGURED", "enter_RUNNING", "after_START_ACTIVITY"}
		for k := r.Range(0, 3); k > 0; k-- {
			trig := r.Pick(startMoments) + wexpr(r, weightPool[r.Intn(len(weightPool))])
			await := trig
			switch r.Intn(4) {
			case 0:
				await = r.Pick([]string{"leave_RUNNING", "leave_RUNNING-1", "after_STOP_ACTIVITY", "before_STOP_ACTIVITY+1", "leave_CONFIGURED+2"})
			case 1:
				await = r.Pick(never)
			}
			add(Hook{Kind: "call", Trig: trig, Await: await, Crit: false})
		}
	}
	// DESTROY / after_DESTROY
	names := []string{"DESTROY", "after_DESTROY"}
	for k := r.Range(1, 4); k > 0; k-- {
		w := destroyWeights[r.Intn(len(destroyWeights))]
		t := r.Pick(names) + wexpr(r, w)
		add(Hook{Kind: "call", Trig: t, Await: t, Crit: r.Chance(1, 3)})
	}
	usedTask := map[string]bool{}
	for k := r.Range(0, 2); k > 0; k-- {
		w := destroyWeights[r.Intn(len(destroyWeights))]
		n := r.Pick(names)
		key := fmt.Sprintf("%s%+d", n, w)
		if usedTask[key] {
			continue
		}
		usedTask[key] = true
		t := n
		if w != 0 {
			t = key
		}
		// a call of the same name and weight in front of the task, so that the trigger commands of two
		// weights are always separated by a call record
		add(Hook{Kind: "call", Trig: t, Await: t, Crit: false})
		add(Hook{Kind: "task", Trig: t, Await: t, Crit: r.Chance(1, 3)})
	}
	// hooks awaited in place: two thirds are written the way users write them, without an await
	for i := range in.Hooks {
		if h := &in.Hooks[i]; h.Kind == "call" && h.Await == h.Trig && r.Chance(2, 3) {
			h.Await = ""
		}
	}
	calls := callIds(in.Hooks, func(Hook) bool { return true })
	for i := range in.Ops {
		in.Ops[i].Slow = subset(r, calls, 1, 5)
		if r.Chance(1, 3) {
			in.Ops[i].Fail = subset(r, calls, 1, 4)
		}
	}
	// a failing critical hook in START_ACTIVITY would change the plan: keep START clean
	if running {
		in.Ops[0].Fail = nil
	}
	// partially stamped runs: a STOP_ACTIVITY that fails in a critical hook leaves the environment
	// RUNNING with the end stamp set (hook at before_STOP_ACTIVITY >= 0 or at leave_RUNNING) or not
	// (negative before_STOP_ACTIVITY weight); the teardown that follows must set whatever is missing
	if kind == "sim-teardown-running" && r.Chance(1, 2) {
		trig := r.Pick([]string{"before_STOP_ACTIVITY", "before_STOP_ACTIVITY+2", "leave_RUNNING-1", "leave_RUNNING", "leave_RUNNING+1", "before_STOP_ACTIVITY-1"})
		add(Hook{Kind: "call", Trig: trig, Await: trig, Crit: true})
		stop := Op{Ev: "STOP_ACTIVITY", Real: true, Fail: []int{id}}
		td := in.Ops[1]
		// the hook fails in the STOP only, not again when the teardown runs the leave_RUNNING hooks
		var keep []int
		for _, f := range td.Fail {
			if f != id {
				keep = append(keep, f)
			}
		}
		td.Fail = keep
		in.Ops = []Op{in.Ops[0], stop, td}
		kind = "sim-failed-stop-teardown"
	}
	return in, kind
}

// sim level, C09: a critical (or not) hook task at a moment of START_ACTIVITY of a live environment,
// failing or not, with the task-class cache maintained (another workflow loaded while every entry
// is older than the TTL) between deployment and the trigger
func genSimHookTask(r *gen.Rand) (Input, string) {
	m := r.Pick([]string{"before_START_ACTIVITY", "before_START_ACTIVITY-1", "leave_CONFIGURED", "enter_RUNNING", "after_START_ACTIVITY+1"})
	crit := r.Chance(2, 3)
	// (no negative exit codes here: the simulated executor of simcore reads them as "never terminates")
	out := r.Pick([]string{"ok", "exit", "exit", "x:137:1:FAILED", "x:2:1:FINISHED"})
	in := Input{Level: "sim", Init: "CONFIGURED", Hooks: []Hook{
		{Id: 1, Kind: "call", Trig: m, Await: m, Crit: false},
		{Id: 2, Kind: "task", Trig: m, Await: m, Crit: crit},
		{Id: 3, Kind: "call", Trig: "after_START_ACTIVITY+9", Crit: false},
		{Id: 4, Kind: "call", Trig: "DESTROY", Crit: false}},
		Ops: []Op{{Ev: "START_ACTIVITY", Real: true, Maint: r.Chance(3, 4), TaskOut: map[string]string{"2": out}}, {Ev: "TEARDOWN"}}}
	return in, "sim-hooktask-maint"
}

func simCorpusC09() ([]Input, []string) {
	var ins []Input
	var kinds []string
	for _, m := range []string{"before_START_ACTIVITY-1", "leave_CONFIGURED", "enter_RUNNING", "after_START_ACTIVITY"} {
		ins = append(ins, Input{Level: "sim", Init: "CONFIGURED", Hooks: []Hook{
			{Id: 1, Kind: "call", Trig: m, Await: m, Crit: false},
			{Id: 2, Kind: "task", Trig: m, Await: m, Crit: true},
			{Id: 3, Kind: "call", Trig: "DESTROY", Crit: false}},
			Ops: []Op{{Ev: "START_ACTIVITY", Real: true, Maint: true, TaskOut: map[string]string{"2": "exit"}}, {Ev: "TEARDOWN"}}})
		kinds = append(kinds, "sim-hooktask-maint")
	}
	return ins, kinds
}

// a failing critical call awaited in a LATER transition, collected long after it returned (more than
// twice its declared timeout): it is collected with its own result (seeded regressions C08-6, C09-7)
func lateCollectionCases() []Input {
	var out []Input
	for _, aw := range []string{"before_RESET", "leave_CONFIGURED+1", "enter_DEPLOYED-1", "after_RESET"} {
		out = append(out, Input{Level: "bare", Init: "DEPLOYED", Hooks: []Hook{
			{Id: 1, Kind: "call", Trig: "enter_CONFIGURED", Await: aw, Crit: true, Timeout: "20ms"},
			{Id: 2, Kind: "call", Trig: "after_CONFIGURE+1", Await: aw, Crit: false, Timeout: "20ms"},
			{Id: 3, Kind: "call", Trig: "before_CONFIGURE", Await: "after_NOTHING", Crit: true, Timeout: "20ms"}},
			Ops: []Op{{Ev: "CONFIGURE", Fail: []int{1, 2, 3}}, {Ev: "RESET", PauseMs: 60}, {Ev: "CONFIGURE", Fail: []int{2}},
				{Ev: "RESET", PauseMs: 60}, {Ev: "LEAVE_CANCEL"}}})
	}
	// before_X awaited at after_X of the same transition, later than the declared timeout after the start
	out = append(out, Input{Level: "bare", Init: "DEPLOYED", Hooks: []Hook{
		{Id: 1, Kind: "call", Trig: "before_CONFIGURE-1", Await: "after_CONFIGURE+1", Crit: true, Timeout: "2ms"},
		{Id: 2, Kind: "call", Trig: "leave_DEPLOYED", Await: "leave_DEPLOYED", Crit: false}},
		Ops: []Op{{Ev: "CONFIGURE", Fail: []int{1}, Slower: []int{2}}, {Ev: "RESET"}, {Ev: "CONFIGURE", Fail: []int{1}, Slower: []int{2}}}})
	return out
}

// time passes between the start of a call and an await point in a later operation
func addPauses(in *Input) {
	for i := range in.Hooks {
		if in.Hooks[i].Kind == "call" {
			in.Hooks[i].Timeout = "20ms"
		}
	}
	for i := 1; i < len(in.Ops); i++ {
		in.Ops[i].PauseMs = 45
	}
}

func simCorpus() ([]Input, []string) {
	var ins []Input
	var kinds []string
	add := func(k string, in Input) { ins = append(ins, in); kinds = append(kinds, k) }
	add("sim-destroy-collision", Input{Level: "sim", Init: "CONFIGURED", Hooks: []Hook{
		{Id: 1, Kind: "call", Trig: "leave_CONFIGURED-1", Await: "leave_CONFIGURED-1"},
		{Id: 2, Kind: "call", Trig: "leave_CONFIGURED+1", Await: "after_NOTHING"},
		{Id: 3, Kind: "call", Trig: "DESTROY+1", Await: "DESTROY+1"},
		{Id: 4, Kind: "call", Trig: "after_DESTROY+1", Await: "after_DESTROY+1"},
		{Id: 5, Kind: "call", Trig: "DESTROY-2", Await: "DESTROY-2"},
		{Id: 6, Kind: "task", Trig: "DESTROY-2"},
		{Id: 7, Kind: "call", Trig: "after_DESTROY+3", Await: "after_DESTROY+3"},
		{Id: 8, Kind: "task", Trig: "after_DESTROY+3"},
		{Id: 9, Kind: "call", Trig: "after_DESTROY-2", Await: "after_DESTROY-2"}},
		Ops: []Op{{Ev: "TEARDOWN"}}})
	add("sim-teardown-running", Input{Level: "sim", Init: "CONFIGURED", Hooks: []Hook{
		{Id: 1, Kind: "call", Trig: "leave_RUNNING", Await: "leave_RUNNING"},
		{Id: 2, Kind: "call", Trig: "enter_RUNNING", Await: "after_STOP_ACTIVITY"},
		{Id: 3, Kind: "call", Trig: "after_START_ACTIVITY", Await: "leave_RUNNING+5"},
		{Id: 4, Kind: "call", Trig: "leave_RUNNING-1", Await: "after_NOTHING"},
		{Id: 5, Kind: "call", Trig: "DESTROY", Await: "DESTROY"},
		{Id: 6, Kind: "call", Trig: "after_DESTROY", Await: "after_DESTROY"}},
		Ops: []Op{{Ev: "START_ACTIVITY", Real: true}, {Ev: "TEARDOWN", Slow: []int{4}}}})
	add("sim-start-stop-teardown", Input{Level: "sim", Init: "CONFIGURED", Hooks: []Hook{
		{Id: 1, Kind: "call", Trig: "leave_CONFIGURED+1", Await: "leave_CONFIGURED+1"},
		{Id: 2, Kind: "call", Trig: "before_START_ACTIVITY", Await: "after_STOP_ACTIVITY+1"},
		{Id: 3, Kind: "call", Trig: "DESTROY-1", Await: "DESTROY-1"}},
		Ops: []Op{{Ev: "START_ACTIVITY", Real: true}, {Ev: "STOP_ACTIVITY", Real: true}, {Ev: "TEARDOWN"}}})
	// each stamp is judged on its own: teardown after a STOP_ACTIVITY that failed after / before the
	// end stamp was written, and after a START_ACTIVITY that failed after the start stamp (C10-3)
	for _, trig := range []string{"before_STOP_ACTIVITY", "leave_RUNNING", "before_STOP_ACTIVITY-1"} {
		add("sim-failed-stop-teardown", Input{Level: "sim", Init: "CONFIGURED", Hooks: []Hook{
			{Id: 1, Kind: "call", Trig: trig, Await: trig, Crit: true},
			{Id: 2, Kind: "call", Trig: "DESTROY", Await: "DESTROY"}},
			Ops: []Op{{Ev: "START_ACTIVITY", Real: true}, {Ev: "STOP_ACTIVITY", Real: true, Fail: []int{1}}, {Ev: "TEARDOWN"}}})
	}
	// hooks written in YAML without an await, at negative, zero and positive weights of every moment of
	// START_ACTIVITY, a critical one failing: the default await is the trigger, weight included (C10-6)
	add("sim-yaml-default-await", Input{Level: "sim", Init: "CONFIGURED", Hooks: []Hook{
		{Id: 1, Kind: "call", Trig: "before_START_ACTIVITY-10", Crit: true},
		{Id: 2, Kind: "call", Trig: "before_START_ACTIVITY-1", Crit: false},
		{Id: 3, Kind: "call", Trig: "before_START_ACTIVITY", Crit: false},
		{Id: 4, Kind: "call", Trig: "before_START_ACTIVITY+5", Crit: false},
		{Id: 5, Kind: "call", Trig: "leave_CONFIGURED-2", Crit: false},
		{Id: 6, Kind: "call", Trig: "enter_RUNNING-3", Crit: false},
		{Id: 7, Kind: "call", Trig: "after_START_ACTIVITY-4", Crit: false},
		{Id: 8, Kind: "call", Trig: "leave_RUNNING-1", Crit: false},
		{Id: 9, Kind: "call", Trig: "DESTROY-1", Crit: false}},
		Ops: []Op{{Ev: "START_ACTIVITY", Real: true, Fail: []int{1}, Slow: []int{2}}, {Ev: "START_ACTIVITY", Real: true, Slow: []int{1, 2, 5, 6, 7}}, {Ev: "TEARDOWN"}}})
	add("sim-failed-start-teardown", Input{Level: "sim", Init: "CONFIGURED", Hooks: []Hook{
		{Id: 1, Kind: "call", Trig: "before_START_ACTIVITY", Await: "before_START_ACTIVITY", Crit: true},
		{Id: 2, Kind: "call", Trig: "DESTROY", Await: "DESTROY"}},
		Ops: []Op{{Ev: "START_ACTIVITY", Real: true, Fail: []int{1}}, {Ev: "TEARDOWN"}}})
	return ins, kinds
}

// trigger expressions: valid ones and a malformed stream
func genParse(r *gen.Rand) (Input, string) {
	names := []string{"before_CONFIGURE", "enter_RUNNING", "leave_CONFIGURED", "after_START_ACTIVITY", "DESTROY", "x", "", "a_b"}
	name := r.Pick(names)
	var s string
	switch r.Intn(12) {
	case 0:
		s = name
	case 1:
		s = name + "+" + strconv.Itoa(r.Range(0, 300))
	case 2:
		s = name + "-" + strconv.Itoa(r.Range(0, 300))
	case 3:
		s = name + r.Pick([]string{"+", "-", "+-", "-+", "++1", "--1", "+-5", "-+5"})
	case 4:
		s = name + r.Pick([]string{"+1a", "-a", "+ 1", "+1 ", "+0x10", "+1.5", "+1e3", "+١"})
	case 5:
		s = name + "+" + r.Pick([]string{"007", "000", "9223372036854775807", "9223372036854775808", "99999999999999999999"})
	case 6:
		s = name + "-" + r.Pick([]string{"007", "0", "9223372036854775807", "9223372036854775808", "9223372036854775809"})
	case 7:
		s = r.Pick([]string{"+5", "-5", "+", "-", "5", "+-", "a-b-c", "a-b+3", "a+3-b", "a+b-4"})
	case 8:
		s = name + "+" + strconv.Itoa(r.Range(0, 9)) + r.Pick([]string{"+", "-"}) + strconv.Itoa(r.Range(0, 99))
	default:
		s = name + wexpr(r, weightPool[r.Intn(len(weightPool))])
	}
	for i := 0; i < len(s); i++ {
		if s[i] >= 0x80 { // model is over bytes with ASCII digits: keep non-ASCII out of the weight part only
			s = s[:i]
			break
		}
	}
	return Input{Level: "parse", Expr: s}, "parse"
}

// corpus: the witnesses of the refutation theorems, always run first
func corpus(prop string) ([]Input, []string) {
	var ins []Input
	var kinds []string
	add := func(k string, in Input) { ins = append(ins, in); kinds = append(kinds, k) }
	switch prop {
	case "C08":
		add("witness-await-later-weight", Input{Level: "bare", Init: "DEPLOYED", Hooks: []Hook{
			{Id: 1, Kind: "call", Trig: "before_CONFIGURE+1", Await: "before_CONFIGURE+5", Crit: true},
			{Id: 2, Kind: "call", Trig: "leave_DEPLOYED", Await: "leave_DEPLOYED", Crit: true}},
			Ops: []Op{{Ev: "CONFIGURE", Slow: []int{1}}, {Ev: "RESET"}, {Ev: "CONFIGURE"}, {Ev: "LEAVE_CANCEL"}}})
		// the await step waits for EVERY call awaited at the point, whatever the first one to return
		// does (seeded regression C08-2: early return on a critical error): at each of the four kinds
		// of moments a fast call (critical failing / non-critical failing / succeeding) next to
		// slower siblings, one of them started earlier, plus a probe at the following point
		for _, m := range []string{"before_CONFIGURE", "leave_DEPLOYED", "enter_CONFIGURED", "after_CONFIGURE"} {
			for mode := 0; mode < 3; mode++ {
				hs := []Hook{
					{Id: 1, Kind: "call", Trig: m + "+2", Await: m + "+2", Crit: mode == 0},
					{Id: 2, Kind: "call", Trig: m + "+2", Await: m + "+2", Crit: false},
					{Id: 3, Kind: "call", Trig: m + "+2", Await: m + "+2", Crit: true},
					{Id: 4, Kind: "call", Trig: "before_CONFIGURE-7", Await: m + "+2", Crit: false},
					{Id: 5, Kind: "call", Trig: m + "+3", Await: m + "+3", Crit: false},
					{Id: 6, Kind: "call", Trig: "after_CONFIGURE+9", Await: "after_CONFIGURE+9", Crit: false}}
				op := Op{Ev: "CONFIGURE", Slow: []int{2}, Slower: []int{3, 4}}
				if mode != 2 {
					op.Fail = []int{1}
				}
				add("siblings-"+m, Input{Level: "bare", Init: "DEPLOYED", Hooks: hs,
					Ops: []Op{op, {Ev: "LEAVE_CANCEL"}}})
			}
		}
		// ascending weights include the weights at which calls are only awaited (seeded regression
		// C08-3: await-only weights processed after every trigger weight): an await-only weight below
		// a trigger weight, the awaited call coming from an earlier moment (1, 2) and from an earlier
		// weight of the same moment (3), slow, at each of the four kinds of moments, both sign classes
		for _, m := range []string{"before_CONFIGURE", "leave_DEPLOYED", "enter_CONFIGURED", "after_CONFIGURE"} {
			early := "before_CONFIGURE-9"
			add("await-only-weight-"+m, Input{Level: "bare", Init: "DEPLOYED", Hooks: []Hook{
				{Id: 1, Kind: "call", Trig: early, Await: m + "+2", Crit: false},
				{Id: 2, Kind: "call", Trig: early, Await: m + "-3", Crit: true},
				{Id: 3, Kind: "call", Trig: m + "+0", Await: m + "+4", Crit: false},
				{Id: 4, Kind: "call", Trig: m + "-1", Await: m + "-1", Crit: false},
				{Id: 5, Kind: "call", Trig: m + "+3", Await: m + "+3", Crit: false},
				{Id: 6, Kind: "call", Trig: m + "+5", Await: m + "+5", Crit: true},
				{Id: 7, Kind: "task", Trig: m + "+6", Crit: false, Timeout: "10s"}},
				Ops: []Op{{Ev: "CONFIGURE", Slow: []int{1, 3}, Slower: []int{2}}, {Ev: "RESET"},
					{Ev: "CONFIGURE", Slower: []int{1, 3}, Slow: []int{2}}, {Ev: "LEAVE_CANCEL"}}})
		}
		for _, in := range lateCollectionCases() {
			add("late-collection", in)
		}
		// a hook task that timed out and ended afterwards with nobody listening, triggered again at the
		// same moment in a later transition: nothing of a later weight / moment / the task transition
		// starts before THIS run of the hook task has ended (seeded regression C08-7: stale event queued)
		for _, m := range []string{"before_CONFIGURE", "leave_DEPLOYED", "enter_CONFIGURED", "after_CONFIGURE"} {
			add("retriggered-hook-task", Input{Level: "bare", Init: "DEPLOYED", Hooks: []Hook{
				{Id: 1, Kind: "task", Trig: m, Crit: false, Timeout: taskTimeoutShort.String()},
				{Id: 2, Kind: "call", Trig: m + "+5", Await: m + "+5", Crit: false},
				{Id: 3, Kind: "call", Trig: "after_CONFIGURE+9", Await: "after_CONFIGURE+9", Crit: false}},
				Ops: []Op{{Ev: "CONFIGURE", TaskOut: map[string]string{"1": "late"}}, {Ev: "RESET"},
					{Ev: "CONFIGURE", TaskOut: map[string]string{"1": "okdelay"}}, {Ev: "RESET"},
					{Ev: "CONFIGURE", TaskOut: map[string]string{"1": "okdelay"}}}})
		}
		add("hooks_test-order", Input{Level: "bare", Init: "DEPLOYED", Hooks: []Hook{
			{Id: 3, Kind: "call", Trig: "before_CONFIGURE+50", Await: "before_CONFIGURE+50", Crit: true},
			{Id: 2, Kind: "call", Trig: "before_CONFIGURE+0", Await: "before_CONFIGURE+0", Crit: true},
			{Id: 1, Kind: "call", Trig: "before_CONFIGURE-50", Await: "before_CONFIGURE-50", Crit: true}},
			Ops: []Op{{Ev: "CONFIGURE", Slow: []int{1, 2, 3}}}})
	case "C09":
		add("witness-late-termination", Input{Level: "bare", Init: "DEPLOYED", Hooks: []Hook{
			{Id: 1, Kind: "task", Trig: "before_CONFIGURE", Crit: true, Timeout: taskTimeoutShort.String()},
			{Id: 2, Kind: "task", Trig: "before_CONFIGURE", Crit: false, Timeout: "10s"}},
			Ops: []Op{{Ev: "CONFIGURE", TaskOut: map[string]string{"1": "late", "2": "okslow"}}}})
		add("witness-enter-error-replaced", Input{Level: "bare", Init: "DEPLOYED", Hooks: []Hook{
			{Id: 1, Kind: "call", Trig: "enter_CONFIGURED", Await: "enter_CONFIGURED", Crit: true},
			{Id: 2, Kind: "call", Trig: "after_CONFIGURE", Await: "after_CONFIGURE", Crit: true}},
			Ops: []Op{{Ev: "CONFIGURE", Fail: []int{1, 2}}}})
		add("witness-stale-collector-swallows", Input{Level: "bare", Init: "DEPLOYED", Hooks: []Hook{
			{Id: 1, Kind: "task", Trig: "before_CONFIGURE-1", Crit: false, Timeout: "10s"},
			{Id: 2, Kind: "task", Trig: "before_CONFIGURE+1", Crit: true, Timeout: taskTimeoutShort.String()}},
			Ops: []Op{{Ev: "CONFIGURE", TaskOut: map[string]string{"1": "trigfail"}}}})
		add("witness-stale-collector-crash", Input{Level: "bare", Init: "DEPLOYED", Hooks: []Hook{
			{Id: 1, Kind: "task", Trig: "before_CONFIGURE", Crit: false, Timeout: "10s"}},
			Ops: []Op{{Ev: "CONFIGURE", TaskOut: map[string]string{"1": "trigfail"}}, {Ev: "RESET"}, {Ev: "CONFIGURE"}}})
		// a cancelling failure at a negative weight of leave_<state> / before_<event>: nothing of a
		// later weight may run (seeded regression C09-1)
		add("cancel-straddles-zero", Input{Level: "bare", Init: "DEPLOYED", Hooks: []Hook{
			{Id: 1, Kind: "call", Trig: "leave_DEPLOYED-10", Await: "leave_DEPLOYED-10", Crit: true},
			{Id: 2, Kind: "call", Trig: "leave_DEPLOYED", Await: "leave_DEPLOYED", Crit: true},
			{Id: 3, Kind: "task", Trig: "leave_DEPLOYED+10", Crit: false, Timeout: "10s"},
			{Id: 4, Kind: "call", Trig: "before_CONFIGURE-1", Await: "before_CONFIGURE-1", Crit: true},
			{Id: 5, Kind: "call", Trig: "before_CONFIGURE+1", Await: "before_CONFIGURE+1", Crit: false}},
			Ops: []Op{{Ev: "CONFIGURE", Fail: []int{1, 2}}, {Ev: "CONFIGURE", Fail: []int{4, 5}}, {Ev: "CONFIGURE", Fail: []int{5}}}})
		// which termination reports of a hook task are failures (seeded regression C09-3: exit code -1
		// of a crashed process reported with voluntaryTermination=true): a critical and a non-critical
		// hook task at each of the four kinds of moments, every class of report
		reports := []string{"x:-1:1:FAILED", "x:-9:0:KILLED", "x:0:1:FAILED", "x:0:0:KILLED", "x:2:1:FINISHED", "x:0:1:FINISHED", "x:-1:1:FINISHED"}
		for mi, m := range []string{"before_CONFIGURE", "leave_DEPLOYED", "enter_CONFIGURED", "after_CONFIGURE"} {
			hs := []Hook{
				{Id: 1, Kind: "task", Trig: m + "-1", Crit: true, Timeout: "10s"},
				{Id: 2, Kind: "task", Trig: m + "+1", Crit: false, Timeout: "10s"},
				{Id: 3, Kind: "call", Trig: "after_CONFIGURE+5", Await: "after_CONFIGURE+5", Crit: false}}
			var ops []Op
			for k, rp := range reports {
				ops = append(ops, Op{Ev: "CONFIGURE", TaskOut: map[string]string{"1": rp, "2": reports[(k+mi+1)%len(reports)]}})
				ops = append(ops, Op{Ev: "RESET"})
			}
			add("task-reports-"+m, Input{Level: "bare", Init: "DEPLOYED", Hooks: hs, Ops: ops})
		}
		for _, in := range lateCollectionCases() {
			add("late-collection", in)
		}
		var many []Hook
		var all []int
		for i := 1; i <= 16; i++ {
			many = append(many, Hook{Id: i, Kind: "call", Trig: "before_CONFIGURE", Await: "before_CONFIGURE", Crit: i%4 != 0})
			all = append(all, i)
		}
		add("simultaneous-16", Input{Level: "bare", Init: "DEPLOYED", Hooks: many,
			Ops: []Op{{Ev: "CONFIGURE", Fail: all}, {Ev: "CONFIGURE", Fail: all[:3]}, {Ev: "CONFIGURE", Fail: all[:2]}, {Ev: "CONFIGURE"}}})
		// the same point hit again and again: Calls.AwaitAll collects the failures of all calls of
		// one await point in parallel (regression guard for the AwaitAll mutex, fix C09-a)
		var crowd []Hook
		var crowdIds []int
		for i := 1; i <= 32; i++ {
			crowd = append(crowd, Hook{Id: i, Kind: "call", Trig: "before_CONFIGURE", Await: "before_CONFIGURE", Crit: true})
			crowdIds = append(crowdIds, i)
		}
		for k := 0; k < 4; k++ {
			var ops []Op
			for j := 0; j < 12; j++ {
				ops = append(ops, Op{Ev: "CONFIGURE", Fail: crowdIds})
			}
			add("simultaneous-32-repeated", Input{Level: "bare", Init: "DEPLOYED", Hooks: crowd, Ops: ops})
		}
	case "C10":
		add("witness-forced-error", Input{Level: "bare", Init: "CONFIGURED", Hooks: []Hook{
			{Id: 1, Kind: "call", Trig: "before_GO_ERROR-1", Await: "before_GO_ERROR-1", Crit: true}},
			Ops: []Op{{Ev: "START_ACTIVITY"}, {Ev: "FORCE_ERROR", Fail: []int{1}}}})
		add("witness-failed-start", Input{Level: "bare", Init: "CONFIGURED", Hooks: []Hook{
			{Id: 1, Kind: "call", Trig: "before_START_ACTIVITY", Await: "before_START_ACTIVITY", Crit: true}},
			Ops: []Op{{Ev: "START_ACTIVITY", Fail: []int{1}}, {Ev: "START_ACTIVITY"}, {Ev: "STOP_ACTIVITY"}}})
		// the real transition objects against a stand-in task manager: a run whose tasks fail to
		// START (StartActivityTransition zeroes currentRunNumber) or to STOP is closed by the GO_ERROR
		// that ControlEnvironment issues next
		probes := []Hook{
			{Id: 1, Kind: "call", Trig: "before_GO_ERROR-1", Await: "before_GO_ERROR-1"},
			{Id: 2, Kind: "call", Trig: "before_GO_ERROR", Await: "before_GO_ERROR"},
			{Id: 3, Kind: "call", Trig: "after_GO_ERROR+1", Await: "after_GO_ERROR+1"}}
		add("real-start-fails-then-go-error", Input{Level: "bare", Init: "CONFIGURED", Hooks: probes,
			Ops: []Op{{Ev: "START_ACTIVITY", Body: "fail", Real: true}, {Ev: "GO_ERROR", Real: true}, {Ev: "RECOVER"}}})
		add("real-stop-fails-then-go-error", Input{Level: "bare", Init: "CONFIGURED", Hooks: probes,
			Ops: []Op{{Ev: "START_ACTIVITY", Real: true}, {Ev: "STOP_ACTIVITY", Body: "fail", Real: true}, {Ev: "GO_ERROR", Real: true}}})
		// START - STOP - START - STOP - START on one environment: what each TransitionTasks message tells
		// the tasks must be of THIS run, the cleared end stamp included (seeded regression C10-4)
		add("real-start-stop-start", Input{Level: "bare", Init: "CONFIGURED", Hooks: probes,
			Ops: []Op{{Ev: "START_ACTIVITY", Real: true}, {Ev: "STOP_ACTIVITY", Real: true}, {Ev: "START_ACTIVITY", Real: true},
				{Ev: "STOP_ACTIVITY", Real: true}, {Ev: "START_ACTIVITY", Body: "fail", Real: true}, {Ev: "GO_ERROR", Real: true}}})
		add("real-start-stop-start-fails-watcher", Input{Level: "bare", Init: "CONFIGURED", Hooks: probes,
			Ops: []Op{{Ev: "START_ACTIVITY", Real: true}, {Ev: "STOP_ACTIVITY", Real: true},
				{Ev: "START_ACTIVITY", Body: "fail", Real: true}, {Ev: "FORCE_ERROR", Real: true}}})
	}
	return ins, kinds
}

func generate(prop string, o gen.Opts) ([]Input, []string) {
	ins, kinds := corpus(prop)
	if prop == "C08" || prop == "C10" {
		si, sk := simCorpus()
		ins, kinds = append(ins, si...), append(kinds, sk...)
	}
	if prop == "C09" {
		si, sk := simCorpusC09()
		ins, kinds = append(ins, si...), append(kinds, sk...)
	}
	r := gen.NewRand(o.Seed)
	rMain, rParse := r.Fork(), r.Fork()
	rSim := r.Fork()
	for i := 0; i < o.N; i++ {
		var in Input
		var k string
		switch prop {
		case "C08":
			if i%10 == 9 {
				in, k = genParse(rParse)
			} else if i%10 == 4 {
				in, k = genSim(rSim, 40)
			} else {
				in, k = genC08(rMain)
			}
		case "C09":
			if i%25 == 7 {
				in, k = genSimHookTask(rSim)
			} else {
				in, k = genC09(rMain)
			}
		default:
			if i%6 == 5 {
				in, k = genSim(rSim, 85)
			} else {
				in, k = genC10(rMain)
			}
		}
		ins = append(ins, in)
		kinds = append(kinds, k)
	}
	return ins, kinds
}
