package main

// Input / observation types shared by the two driving levels (bare Environment, full simcore).

import (
	"regexp"
	"sort"
	"strconv"
	"strings"
)

type Hook struct {
	Id      int    `json:"id"`
	Kind    string `json:"kind"` // "call" | "task"
	Trig    string `json:"trig"` // raw trigger expression, e.g. before_CONFIGURE-5
	Await   string `json:"await,omitempty"`
	Crit    bool   `json:"crit"`
	Timeout string `json:"timeout,omitempty"` // task hooks: hook time-out; calls: the declared timeout trait (default 5s)
	// Await == "" for a call: the workflow does not write an await (sim level: the YAML has no await
	// line and callRole.UnmarshalYAML supplies the default); the declared await point is the trigger
}

// Op is one operation on the environment.
//   Ev: one of the eight FSM events, or
//       "FORCE_ERROR"  the error watcher's sequence: try GO_ERROR, force the state if that fails
//       "LEAVE_CANCEL" bare level: leave_<state> hooks (all weights) + cancellation of pending calls
//       "TEARDOWN"     sim level: the real TeardownEnvironment (forced)
//   Body: "ok" | "fail" (bare: injected body; sim: simulated executors refuse the command)
//   Fail: ids of call hooks whose instance started during this operation reports an error
//   Slow: ids of call hooks whose instance started during this operation returns late
//   TaskOut: hook id -> outcome of a hook task triggered during this operation:
//       ok | exit (non-zero exit code) | invol (involuntary termination) | timeout |
//       late (times out, terminates afterwards) | okslow (terminates successfully, late) |
//       trigfail (the trigger command itself fails: bare level only)
type Op struct {
	Ev      string            `json:"ev"`
	Body    string            `json:"body,omitempty"`
	Fail    []int             `json:"fail,omitempty"`
	Slow    []int             `json:"slow,omitempty"`
	Slower  []int             `json:"slower,omitempty"` // ... returns later still (four times the delay of Slow)
	TaskOut map[string]string `json:"taskout,omitempty"`
	// Real: START_ACTIVITY / STOP_ACTIVITY / GO_ERROR run the package's real transition object
	// (NewStartActivityTransition ...) against a stand-in task manager that answers the transition
	// request with a TasksStateChangedEvent, with an error when Body is "fail"
	Real bool `json:"real,omitempty"`
	// PauseMs: the harness waits that long before the operation (time passing between the start of a
	// call and an await point in a later operation)
	PauseMs int `json:"pause_ms,omitempty"`
	// Maint (sim level): before the operation the task-class cache is maintained the way the core
	// does it on every workflow load, with every entry older than the TTL: another environment is
	// created and destroyed while taskClassCacheTTL is 1 ns
	Maint bool `json:"maint,omitempty"`
}

type Input struct {
	Level string `json:"level"` // "bare" | "sim" | "parse"
	Init  string `json:"init,omitempty"`
	Hooks []Hook `json:"hooks,omitempty"`
	Ops   []Op   `json:"ops,omitempty"`
	Expr  string `json:"expr,omitempty"` // level "parse"
}

type PendObs struct {
	Await     string `json:"await"`
	Weight    int    `json:"w"`
	Hook      int    `json:"h"`
	Op        int    `json:"op"`
	Cancelled bool   `json:"cancelled,omitempty"`
}

// ErrEntry is one "critical hook(s) failed at trigger X" part of a returned error.
type ErrEntry struct {
	Trigger string   `json:"trigger"`
	Count   int      `json:"count"`
	Ids     [][2]int `json:"ids,omitempty"` // (hook, op) of the failing instances named in the message
	Tasks   []int    `json:"tasks,omitempty"`
}

type ErrClass struct {
	Kind    string     `json:"kind"` // ok | hook | body | invalid | other
	Entries []ErrEntry `json:"entries,omitempty"`
}

type OpObs struct {
	ErrText string    `json:"err,omitempty"`
	Err     ErrClass  `json:"errc"`
	State   string    `json:"state"`
	Pending []PendObs `json:"pending,omitempty"`
	RnField uint32    `json:"rn"`
	Vars    *Snap     `json:"vars,omitempty"`
	// Push: what the TransitionTasks message of a real START_ACTIVITY / STOP_ACTIVITY transition
	// told the tasks about the run (nil: no message seen)
	Push *Snap `json:"push,omitempty"`
}

// pushOf projects the argument map of a transition message to the run variables
// (Rn = runNumber; Rn2 unused).
func pushOf(args map[string]string) *Snap {
	g := func(k string) string {
		if v, ok := args[k]; ok {
			return v
		}
		return absent
	}
	return &Snap{Rn: g("runNumber"), Rn2: absent, Sosor: g("run_start_time_ms"), Eosor: g("run_start_completion_time_ms"),
		Soeor: g("run_end_time_ms"), Eoeor: g("run_end_completion_time_ms")}
}

// AwaitObs: the await expression a call role ended up with once the workflow was built / loaded
type AwaitObs struct {
	Hook  int    `json:"h"`
	Await string `json:"await"`
}

type Obs struct {
	Awaits  []AwaitObs `json:"awaits,omitempty"`
	Recs    []Rec   `json:"recs,omitempty"`
	Ops     []OpObs `json:"ops,omitempty"`
	Crashed bool    `json:"crashed,omitempty"` // the process running the core died during this case
	Hung    bool    `json:"hung,omitempty"`    // an operation did not return
	CrashAt int     `json:"crash_at,omitempty"`
	Note    string  `json:"note,omitempty"`
	// level "parse"
	Name   string `json:"name,omitempty"`
	Weight int    `json:"weight,omitempty"`
}

var reCrit = regexp.MustCompile(`(?:(\d+) )?critical hooks? failed at trigger ([A-Za-z_]+)`)
var reTok = regexp.MustCompile(`<<h(\d+)@(\d+)>>`)
// hook tasks are named vt<id>x at the bare level and <repo>/tasks/c<case>k<id>@<rev> at the sim level
var reTask = regexp.MustCompile(`hook task (?:vt|\S*/tasks/c\d+k)(\d+)(?:x|@)`)

const bodyErrText = "verif body refused"

// classify turns an error returned by a transition into its projected class: which triggers are
// named, how many critical hooks are said to have failed there, and which instances are named.
func classify(err error) ErrClass {
	if err == nil {
		return ErrClass{Kind: "ok"}
	}
	s := err.Error()
	locs := reCrit.FindAllStringSubmatchIndex(s, -1)
	if len(locs) > 0 {
		var out []ErrEntry
		for i, l := range locs {
			end := len(s)
			if i+1 < len(locs) {
				end = locs[i+1][0]
			}
			e := ErrEntry{Trigger: s[l[4]:l[5]], Count: 1}
			if l[2] >= 0 {
				e.Count, _ = strconv.Atoi(s[l[2]:l[3]])
			}
			seg := s[l[1]:end]
			for _, m := range reTok.FindAllStringSubmatch(seg, -1) {
				h, _ := strconv.Atoi(m[1])
				o, _ := strconv.Atoi(m[2])
				e.Ids = append(e.Ids, [2]int{h, o})
			}
			for _, m := range reTask.FindAllStringSubmatch(seg, -1) {
				h, _ := strconv.Atoi(m[1])
				e.Tasks = append(e.Tasks, h)
			}
			sort.Slice(e.Ids, func(a, b int) bool {
				if e.Ids[a][0] != e.Ids[b][0] {
					return e.Ids[a][0] < e.Ids[b][0]
				}
				return e.Ids[a][1] < e.Ids[b][1]
			})
			sort.Ints(e.Tasks)
			out = append(out, e)
		}
		return ErrClass{Kind: "hook", Entries: out}
	}
	if strings.Contains(s, bodyErrText) {
		return ErrClass{Kind: "body"}
	}
	if strings.Contains(s, "inappropriate") || strings.Contains(s, "does not exist") {
		return ErrClass{Kind: "invalid"}
	}
	return ErrClass{Kind: "other"}
}
