package main

// Recorder + integration plugin used by h08 (C08, C09, C10).  One sequence of records per case,
// shared by the plugin functions (call goroutines), the captured environment/run events and the
// injected transition bodies / hook-task trigger function (state-machine goroutine).

import (
	"fmt"
	"sync"
	"time"

	"github.com/AliceO2Group/Control/common/utils/uid"
	"github.com/AliceO2Group/Control/core/integration"
	"github.com/AliceO2Group/Control/core/workflow/callable"
)

// Rec is one observation record.
type Rec struct {
	Kind string `json:"k"`           // S,E (probe start/end) | M (step marker) | B (body) | T (hook tasks triggered) | R (run event)
	Hook int    `json:"h,omitempty"` // S,E: hook id
	Op   int    `json:"op"`          // index of the operation during which the record was made
	// S: snapshot of the run variables as the call saw them
	Snap *Snap `json:"snap,omitempty"`
	// E: whether the probe reported failure
	Fail bool `json:"fail,omitempty"`
	// M: transition step and whether the event carried an error
	Step string `json:"step,omitempty"`
	Err  bool   `json:"err,omitempty"`
	// T: hook ids triggered together
	Tasks []int `json:"tasks,omitempty"`
	// R: run event
	Run *RunEv `json:"run,omitempty"`
	call *callable.Call
}

type RunEv struct {
	Transition string `json:"tr"`
	Status     string `json:"st"`
	Rn         uint32 `json:"rn"`
	State      string `json:"state"`
	Err        bool   `json:"err,omitempty"`
}

// Snap holds the six run variables ("\x00" = absent from the variable stack).
type Snap struct {
	Rn, Rn2, Sosor, Eosor, Soeor, Eoeor string
}

const absent = "\x00"

func snapOf(vs map[string]string) *Snap {
	g := func(k string) string {
		if v, ok := vs[k]; ok {
			return v
		}
		return absent
	}
	return &Snap{g("run_number"), g("runNumber"), g("run_start_time_ms"), g("run_start_completion_time_ms"),
		g("run_end_time_ms"), g("run_end_completion_time_ms")}
}

type faultKey struct{ hook, op int }

type Recorder struct {
	mu    sync.Mutex
	recs  []Rec
	op    int
	fail  map[faultKey]bool
	slow  map[faultKey]time.Duration
	calls map[*callable.Call]int // call object -> index of its S record
}

func NewRecorder() *Recorder { r := &Recorder{}; r.Reset(); return r }

func (r *Recorder) Reset() {
	r.mu.Lock()
	r.recs = nil
	r.op = 0
	r.fail = map[faultKey]bool{}
	r.slow = map[faultKey]time.Duration{}
	r.calls = map[*callable.Call]int{}
	r.mu.Unlock()
}

func (r *Recorder) SetOp(op int) { r.mu.Lock(); r.op = op; r.mu.Unlock() }
func (r *Recorder) SetFail(hook, op int) {
	r.mu.Lock()
	r.fail[faultKey{hook, op}] = true
	r.mu.Unlock()
}
func (r *Recorder) SetSlow(hook, op int, d time.Duration) {
	r.mu.Lock()
	r.slow[faultKey{hook, op}] = d
	r.mu.Unlock()
}

func (r *Recorder) add(x Rec) {
	r.mu.Lock()
	x.Op = r.op
	r.recs = append(r.recs, x)
	r.mu.Unlock()
}

func (r *Recorder) Records() []Rec {
	r.mu.Lock()
	defer r.mu.Unlock()
	return append([]Rec(nil), r.recs...)
}

// StartedOp returns the operation index during which the given call object was started (its
// probe function began), or -1 if its function has not begun yet.
func (r *Recorder) StartedOp(c *callable.Call) (hook, op int) {
	r.mu.Lock()
	defer r.mu.Unlock()
	if i, ok := r.calls[c]; ok {
		return r.recs[i].Hook, r.recs[i].Op
	}
	return -1, -1
}

// ---- plugin

type plugin struct{ rec *Recorder }

func newPlugin(rec *Recorder) integration.NewFunc {
	return func(endpoint string) integration.Plugin { return &plugin{rec: rec} }
}

func (p *plugin) GetName() string            { return "verif" }
func (p *plugin) GetPrettyName() string      { return "verification plugin (h08)" }
func (p *plugin) GetEndpoint() string        { return "none" }
func (p *plugin) GetConnectionState() string { return "READY" }
func (p *plugin) GetData(_ []any) string     { return "" }
func (p *plugin) GetEnvironmentsData(envIds []uid.ID) map[uid.ID]string {
	return map[uid.ID]string{}
}
func (p *plugin) GetEnvironmentsShortData(envIds []uid.ID) map[uid.ID]string {
	return map[uid.ID]string{}
}
func (p *plugin) Init(_ string) error { return nil }
func (p *plugin) Destroy() error      { return nil }
func (p *plugin) ObjectStack(_ map[string]string, _ map[string]string) map[string]interface{} {
	return map[string]interface{}{}
}

func failToken(hook, op int) string { return fmt.Sprintf("<<h%d@%d>>", hook, op) }

func (p *plugin) CallStack(data interface{}) (stack map[string]interface{}) {
	call, ok := data.(*callable.Call)
	if !ok {
		return
	}
	r := p.rec
	stack = make(map[string]interface{})
	stack["Probe"] = func(hook int) (out string) {
		snap := snapOf(call.VarStack)
		r.mu.Lock()
		op := r.op
		r.calls[call] = len(r.recs)
		r.recs = append(r.recs, Rec{Kind: "S", Hook: hook, Op: op, Snap: snap, call: call})
		fail := r.fail[faultKey{hook, op}]
		slow := r.slow[faultKey{hook, op}]
		r.mu.Unlock()
		if slow > 0 {
			time.Sleep(slow)
		}
		r.mu.Lock()
		r.recs = append(r.recs, Rec{Kind: "E", Hook: hook, Op: r.op, Fail: fail})
		// the E record keeps the operation index of the start so that (hook, op) names the instance
		r.recs[len(r.recs)-1].Op = op
		r.mu.Unlock()
		if fail {
			call.VarStack["__call_error"] = "verif probe failed " + failToken(hook, op)
		}
		return
	}
	return
}
