package main

// Level 2: the full in-process core (harness/internal/simcore): real environment.Manager
// (CreateEnvironment, TeardownEnvironment), real task.Manager, simulated Mesos master and
// executors.  Used for what the bare Environment cannot do: the real TeardownEnvironment
// (leave_<state> hooks of all weights, end stamps while RUNNING, DESTROY / after_DESTROY hooks as
// calls and as hook tasks, cancellation of pending calls) and START_ACTIVITY with real tasks.
// A case is: create the environment (DEPLOY + CONFIGURE, no hooks there), then the operations
// START_ACTIVITY (optional) and TEARDOWN.

import (
	"fmt"
	"os"
	"path/filepath"
	"strconv"
	"strings"
	"sync"
	"time"

	"github.com/AliceO2Group/Control/common/event/topic"
	"github.com/AliceO2Group/Control/common/utils/uid"
	"github.com/AliceO2Group/Control/core/environment"
	"github.com/AliceO2Group/Control/core/integration"
	"github.com/AliceO2Group/Control/core/the"
	"github.com/spf13/viper"

	"verif/harness/internal/simcore"
)

const simBasicClass = `name: %s
control:
  mode: basic
wants:
  cpu: 0.1
  memory: 64
command:
  env: []
  shell: true
  value: "true"
`

type simDriver struct {
	s   *simcore.Sim
	rec *Recorder
	cap *capWriter
	n   int
	mu  sync.Mutex
	// arguments of the last START / STOP transition command sent to a task
	pushed *Snap
	// scripted outcome of the hook tasks of the running operation (hook id -> exit code)
	hookExit map[int]int
}

func newSimDriver(workDir string) (*simDriver, error) {
	rec := NewRecorder()
	s, err := simcore.New(simcore.Options{
		WorkDir:   workDir,
		Plugins:   map[string]integration.NewFunc{"verif": newPlugin(rec)},
		Workflows: map[string]string{}, TaskClasses: map[string]string{},
		Agents: []simcore.Agent{{Hostname: "host1", CPUs: 64, Mem: 65536, Ports: [][2]uint64{{9000, 9900}, {30000, 30900}},
			Attributes: map[string]string{"machine_id": "host1"}}},
		Settings: map[string]interface{}{"metrics.port": 0},
		Quiet:    os.Getenv("SIM_VERBOSE") == "",
	})
	if err != nil {
		return nil, err
	}
	d := &simDriver{s: s, rec: rec, cap: &capWriter{rec: rec}}
	the.VerifC08SetEventWriter(topic.Environment, d.cap)
	the.VerifC08SetEventWriter(topic.Run, d.cap)
	s.Beh.Hook = func(taskId, className string) int {
		// the termination report follows the acknowledgement of the trigger command; give the
		// collector of runTasksAsHooks the time to be receiving (NotifyEvent does not wait for it)
		time.Sleep(3 * time.Millisecond)
		if id, ok := hookIdOfClass(className); ok {
			d.mu.Lock()
			defer d.mu.Unlock()
			return d.hookExit[id]
		}
		return 0
	}
	// hook tasks triggered: one record per trigger command, made when the core sends it
	s.OnMsg = func(m *simcore.MsgRecord) {
		if m.Name == "MesosCommand_Transition" && (m.Event == "START" || m.Event == "STOP") {
			d.mu.Lock()
			d.pushed = pushOf(m.Arguments)
			d.mu.Unlock()
			return
		}
		if m.Name != "MesosCommand_TriggerHook" {
			return
		}
		live := s.LiveTasks()
		var ids []int
		for _, tid := range m.TaskIds {
			if id, ok := hookIdOfClass(live[tid].Class); ok {
				ids = append(ids, id)
			}
		}
		if len(ids) > 0 {
			rec.add(Rec{Kind: "T", Tasks: ids})
		}
	}
	return d, nil
}

// class names of hook tasks: c<case>k<hook id>
func hookIdOfClass(cls string) (int, bool) {
	i := strings.LastIndex(cls, "k")
	if i < 0 || !strings.HasPrefix(cls, "c") {
		return 0, false
	}
	id, err := strconv.Atoi(cls[i+1:])
	return id, err == nil
}

func (d *simDriver) workflowYAML(name string, n int, in Input) string {
	var b strings.Builder
	fmt.Fprintf(&b, "name: %s\ndefaults:\n  deploy_timeout: 2s\nroles:\n", name)
	fmt.Fprintf(&b, "  - name: \"t0\"\n    task:\n      load: c%dt0\n      critical: true\n", n)
	for _, h := range in.Hooks {
		switch h.Kind {
		case "call":
			await := ""
			if h.Await != "" { // otherwise: as users mostly write hooks, without an await line
				await = fmt.Sprintf("      await: %s\n", h.Await)
			}
			fmt.Fprintf(&b, "  - name: \"c%d\"\n    call:\n      func: verif.Probe(%d)\n      trigger: %s\n%s      timeout: 5s\n      critical: %v\n",
				h.Id, h.Id, h.Trig, await, h.Crit)
		case "task":
			fmt.Fprintf(&b, "  - name: \"%s\"\n    task:\n      load: c%dk%d\n      trigger: %s\n      timeout: 2s\n      critical: %v\n",
				taskName(h.Id), n, h.Id, h.Trig, h.Crit)
		}
	}
	return b.String()
}

func (d *simDriver) run(in Input) (obs Obs) {
	rec := d.rec
	rec.Reset()
	d.n++
	n := d.n
	name := fmt.Sprintf("case%d", n)
	os.WriteFile(filepath.Join(d.s.RepoDir, "tasks", fmt.Sprintf("c%dt0.yaml", n)), []byte(fmt.Sprintf(simBasicClass, fmt.Sprintf("c%dt0", n))), 0o644)
	for _, h := range in.Hooks {
		if h.Kind == "task" {
			cls := fmt.Sprintf("c%dk%d", n, h.Id)
			os.WriteFile(filepath.Join(d.s.RepoDir, "tasks", cls+".yaml"), []byte(fmt.Sprintf(simBasicClass, cls)), 0o644)
		}
	}
	os.WriteFile(filepath.Join(d.s.RepoDir, "workflows", name+".yaml"), []byte(d.workflowYAML(name, n, in)), 0o644)
	d.s.Consul.Set("o2/runtime/run_number", "0")
	d.cap.setEnv("") // nothing of the creation is recorded
	// creation is not what is examined here: the DEPLOY wait loop of the core occasionally misses
	// the ACTIVE notification and times out (recorded under C03); such a creation is repeated
	type cres struct {
		id  uid.ID
		err error
	}
	var id uid.ID
	created := false
	for attempt := 0; attempt < 4 && !created; attempt++ {
		id = uid.New()
		cch := make(chan cres, 1)
		go func(id uid.ID) {
			i, err := d.s.Envman.CreateEnvironment(name, map[string]string{}, false, id, false)
			cch <- cres{i, err}
		}(id)
		select {
		case r := <-cch:
			if r.err == nil {
				created = true
			} else {
				obs.Note = "cannot create environment: " + r.err.Error()
			}
		case <-time.After(30 * time.Second):
			obs.Note = "creation did not return"
			obs.Hung = true
			return
		}
	}
	if !created {
		return
	}
	obs.Note = ""
	env, err := d.s.Envman.Environment(id)
	if err != nil || env == nil || env.CurrentState() != "CONFIGURED" {
		obs.Note = "environment not CONFIGURED after creation"
		return
	}
	d.settle(id.String(), "CONFIGURED")
	obs.Awaits = awaitsOf(env.Workflow())
	rec.Reset()
	d.cap.setEnv(id.String())
	for i := range in.Ops {
		op := &in.Ops[i]
		rec.SetOp(i)
		for _, h := range op.Fail {
			rec.SetFail(h, i)
		}
		for _, h := range op.Slow {
			rec.SetSlow(h, i, slowDelay)
		}
		if op.Maint {
			d.maintainClassCache()
		}
		rec.add(Rec{Kind: "O"})
		d.mu.Lock()
		d.pushed = nil
		d.hookExit = map[int]int{}
		for k, v := range op.TaskOut {
			hid, _ := strconv.Atoi(k)
			switch {
			case v == "exit":
				d.hookExit[hid] = 3
			default:
				if code, _, _, _, ok := parseTermX(v); ok {
					d.hookExit[hid] = code
				}
			}
		}
		d.mu.Unlock()
		var opErr error
		done := make(chan struct{})
		go func() {
			defer close(done)
			switch op.Ev {
			case "TEARDOWN":
				opErr = d.s.Envman.TeardownEnvironment(id, true)
			case "START_ACTIVITY":
				opErr = env.TryTransition(environment.VerifC10RealTransition{
					T: environment.NewStartActivityTransition(d.s.Taskman), Before: func() { rec.add(Rec{Kind: "B"}) }})
			case "STOP_ACTIVITY":
				opErr = env.TryTransition(environment.VerifC10RealTransition{
					T: environment.NewStopActivityTransition(d.s.Taskman), Before: func() { rec.add(Rec{Kind: "B"}) }})
			default:
				opErr = fmt.Errorf("operation %s not supported at the sim level", op.Ev)
			}
		}()
		select {
		case <-done:
		case <-time.After(30 * time.Second):
			obs.Hung = true
			obs.CrashAt = i
			obs.Recs = rec.Records()
			return
		}
		rec.add(Rec{Kind: "X"})
		oo := OpObs{Err: classify(opErr), State: env.CurrentState(), RnField: env.GetCurrentRunNumber()}
		if opErr != nil {
			oo.ErrText = opErr.Error()
		}
		oo.Pending = pendingOf(env, rec)
		if vs, err := env.Workflow().ConsolidatedVarStack(); err == nil {
			oo.Vars = snapOf(vs)
		}
		d.mu.Lock()
		oo.Push = d.pushed
		d.mu.Unlock()
		obs.Ops = append(obs.Ops, oo)
		switch op.Ev {
		case "START_ACTIVITY":
			d.settle(id.String(), "RUNNING")
		case "STOP_ACTIVITY":
			d.settle(id.String(), "CONFIGURED")
		}
	}
	waitQuiet(rec)
	obs.Recs = mergeTriggers(rec.Records(), in.Hooks)
	d.cap.setEnv("")
	return
}

// mergeTriggers: the core sends one trigger command per executor; the hook tasks of one weight are
// triggered by consecutive commands (the generator puts a DESTROY / after_DESTROY call in front of
// every task hook, so the commands of two weights are always separated by the record of such a
// call): they are one "hook tasks triggered" record.  Start / end records of other calls (still
// running from an earlier point) may fall in between and do not separate.
func mergeTriggers(recs []Rec, hooks []Hook) []Rec {
	destroyCall := map[int]bool{}
	for _, h := range hooks {
		if h.Kind == "call" && (strings.HasPrefix(h.Trig, "DESTROY") || strings.HasPrefix(h.Trig, "after_DESTROY")) {
			destroyCall[h.Id] = true
		}
	}
	var out []Rec
	lastT := -1
	for _, r := range recs {
		switch {
		case r.Kind == "T" && lastT >= 0 && out[lastT].Op == r.Op:
			out[lastT].Tasks = append(append([]int(nil), out[lastT].Tasks...), r.Tasks...)
			continue
		case r.Kind == "T":
			lastT = len(out)
		case (r.Kind == "S" || r.Kind == "E") && !destroyCall[r.Hook]:
			// does not separate
		default:
			lastT = -1
		}
		out = append(out, r)
	}
	return out
}

// maintainClassCache: what happens to the task-class cache while an environment lives - another
// workflow is loaded (RefreshClasses -> removeInactiveClasses) at a time when every cache entry is
// older than taskClassCacheTTL.  Classes of rostered tasks must survive it.
func (d *simDriver) maintainClassCache() {
	old := viper.Get("taskClassCacheTTL")
	viper.Set("taskClassCacheTTL", time.Nanosecond)
	defer viper.Set("taskClassCacheTTL", old)
	d.n++
	name := fmt.Sprintf("maint%d", d.n)
	cls := fmt.Sprintf("c%dt0", d.n)
	os.WriteFile(filepath.Join(d.s.RepoDir, "tasks", cls+".yaml"), []byte(fmt.Sprintf(simBasicClass, cls)), 0o644)
	os.WriteFile(filepath.Join(d.s.RepoDir, "workflows", name+".yaml"),
		[]byte(fmt.Sprintf("name: %s\ndefaults:\n  deploy_timeout: 2s\nroles:\n  - name: \"t0\"\n    task:\n      load: %s\n      critical: true\n", name, cls)), 0o644)
	done := make(chan struct{})
	go func() {
		defer close(done)
		for attempt := 0; attempt < 3; attempt++ {
			id := uid.New()
			if _, err := d.s.Envman.CreateEnvironment(name, map[string]string{}, false, id, false); err == nil {
				d.settle(id.String(), "CONFIGURED")
				d.s.Envman.TeardownEnvironment(id, true)
				return
			}
		}
	}()
	select {
	case <-done:
	case <-time.After(30 * time.Second):
	}
}

// settle waits until the task manager has digested the state announcements of the environment's
// controlled task: task.Manager handles them in goroutines of their own, and one that is still
// running when the teardown releases the task dereferences the task's cleared parent role
// (core/task/manager.go updateTaskState -> Task.SendEvent; seen as a SIGSEGV about once in a
// hundred immediate teardowns - not a matter of C08-C10, reported to the coordinator).
func (d *simDriver) settle(envId, state string) {
	simcore.WaitFor(2*time.Second, func() bool {
		for _, t := range d.s.Taskman.VerifRoster() {
			if t.EnvId == envId && strings.HasSuffix(t.ClassName, "t0") && t.State != state {
				return false
			}
		}
		return true
	})
	time.Sleep(2 * time.Millisecond)
}
