package main

type simDriver struct{}

func newSimDriver(workDir string) (*simDriver, error) { return &simDriver{}, nil }
func (s *simDriver) run(in Input) Obs                  { return Obs{Note: "sim not implemented"} }
