package main

// Level 1: a bare real Environment (newEnvironment + looplab FSM + the real callbacks,
// handleHooks, runTasksAsHooks, Calls.StartAll/AwaitAll) with a workflow built from the public
// role constructors, an injectable transition body and an injectable hook-task trigger function.

import (
	"errors"
	"fmt"
	"os"
	"path/filepath"
	"strconv"
	"strings"
	"sync"
	"time"

	"github.com/AliceO2Group/Control/common/event"
	"github.com/AliceO2Group/Control/common/event/topic"
	pb "github.com/AliceO2Group/Control/common/protos"
	occpb "github.com/AliceO2Group/Control/executor/protos"
	"github.com/AliceO2Group/Control/common/utils/uid"
	"github.com/AliceO2Group/Control/core/environment"
	"github.com/AliceO2Group/Control/core/integration"
	"github.com/AliceO2Group/Control/core/task"
	"github.com/AliceO2Group/Control/core/the"
	"github.com/AliceO2Group/Control/core/workflow"
	mesos "github.com/mesos/mesos-go/api/v1/lib"
	"github.com/sirupsen/logrus"
	"github.com/spf13/viper"

	"verif/harness/internal/simcore"
)

// capWriter captures published events of one environment into the recorder.
type capWriter struct {
	rec   *Recorder
	mu    sync.Mutex
	envId string
}

func (w *capWriter) setEnv(id string) { w.mu.Lock(); w.envId = id; w.mu.Unlock() }
func (w *capWriter) Close()          {}
func (w *capWriter) WriteEvent(e interface{}) {
	w.WriteEventWithTimestamp(e, time.Time{})
}
func (w *capWriter) WriteEventWithTimestamp(e interface{}, _ time.Time) {
	w.mu.Lock()
	id := w.envId
	w.mu.Unlock()
	switch ev := e.(type) {
	case *pb.Ev_EnvironmentEvent:
		if ev.EnvironmentId != id || ev.TransitionStep == "" {
			return
		}
		w.rec.add(Rec{Kind: "M", Step: ev.TransitionStep, Err: ev.Error != ""})
	case *pb.Ev_RunEvent:
		if ev.EnvironmentId != id {
			return
		}
		w.rec.add(Rec{Kind: "R", Run: &RunEv{Transition: ev.Transition, Status: ev.TransitionStatus.String(),
			Rn: ev.RunNumber, State: ev.State, Err: ev.Error != ""}})
	}
}

type bare struct {
	rec    *Recorder
	cap    *capWriter
	consul *simcore.FakeConsul
	seq    int
}

func newBare(workDir string) (*bare, error) {
	logrus.SetLevel(logrus.PanicLevel)
	logrus.SetOutput(devNull{})
	os.RemoveAll(workDir)
	if err := os.MkdirAll(filepath.Join(workDir, "work"), 0o755); err != nil {
		return nil, err
	}
	consul, err := simcore.NewFakeConsul()
	if err != nil {
		return nil, err
	}
	rec := NewRecorder()
	viper.Reset()
	viper.Set("config_endpoint", "consul://"+consul.Addr)
	viper.Set("coreWorkingDir", filepath.Join(workDir, "work"))
	viper.Set("enableKafka", false)
	integration.Reset()
	integration.RegisterPlugin("verif", "verifEndpoint", newPlugin(rec))
	viper.Set("verifEndpoint", "http://example.invalid")
	viper.Set("integrationPlugins", []string{"verif"})
	b := &bare{rec: rec, cap: &capWriter{rec: rec}, consul: consul}
	the.VerifC08SetEventWriter(topic.Environment, b.cap)
	the.VerifC08SetEventWriter(topic.Run, b.cap)
	return b, nil
}

type devNull struct{}

func (devNull) Write(p []byte) (int, error) { return len(p), nil }

const taskTimeoutShort = 25 * time.Millisecond
const slowDelay = 3 * time.Millisecond

func taskName(id int) string { return fmt.Sprintf("vt%dx", id) }
func taskId(id int) string   { return fmt.Sprintf("tid-%d", id) }

// buildWorkflow: root aggregator with one child per hook, in the order given.
func buildWorkflow(hooks []Hook) workflow.Role {
	var roles []workflow.Role
	for _, h := range hooks {
		switch h.Kind {
		case "call":
			cto := h.Timeout
			if cto == "" {
				cto = "5s"
			}
			roles = append(roles, workflow.NewCallRole(fmt.Sprintf("c%d", h.Id),
				task.Traits{Trigger: h.Trig, Await: declaredAwait(h), Timeout: cto, Critical: h.Crit},
				fmt.Sprintf("verif.Probe(%d)", h.Id), ""))
		case "task":
			to := h.Timeout
			if to == "" {
				to = "10s"
			}
			roles = append(roles, workflow.VerifC08NewHookTaskRole(taskName(h.Id),
				task.Traits{Trigger: h.Trig, Await: h.Trig, Timeout: to, Critical: h.Crit}, taskId(h.Id)))
		}
	}
	return workflow.NewAggregatorRole("root", roles)
}

func declaredAwait(h Hook) string {
	if h.Await == "" {
		return h.Trig
	}
	return h.Await
}

// awaitsOf reads the await expression every call role of the workflow ended up with
// (role names c<hook id>).
func awaitsOf(wf workflow.Role) []AwaitObs {
	out := []AwaitObs{}
	for _, r := range wf.GetRoles() {
		name := r.GetName()
		tr, ok := r.(interface{ GetTaskTraits() task.Traits })
		if !ok || !strings.HasPrefix(name, "c") {
			continue
		}
		id, err := strconv.Atoi(name[1:])
		if err != nil {
			continue
		}
		out = append(out, AwaitObs{Hook: id, Await: tr.GetTaskTraits().Await})
	}
	return out
}

func pendingOf(env *environment.Environment, rec *Recorder) []PendObs {
	out := []PendObs{}
	ps := env.VerifC08PendingAwait()
	// every pending call has been started; wait until its function has begun so that the
	// instance can be named by (hook, operation of its start)
	for _, p := range ps {
		deadline := time.Now().Add(2 * time.Second)
		for {
			h, op := rec.StartedOp(p.Call)
			if h >= 0 || time.Now().After(deadline) {
				out = append(out, PendObs{Await: p.Await, Weight: p.Weight, Hook: h, Op: op, Cancelled: p.Cancelled})
				break
			}
			time.Sleep(50 * time.Microsecond)
		}
	}
	return out
}

// parseTermX reads a scripted termination report "x:<exit code>:<voluntary 0|1>:<FINISHED|FAILED|KILLED>".
func parseTermX(s string) (code int, vol bool, st mesos.TaskState, fin int, ok bool) {
	parts := strings.Split(s, ":")
	if len(parts) != 4 || parts[0] != "x" {
		return
	}
	code, err := strconv.Atoi(parts[1])
	if err != nil {
		return
	}
	vol = parts[2] == "1"
	switch parts[3] {
	case "FINISHED":
		st, fin = mesos.TASK_FINISHED, 0
	case "FAILED":
		st, fin = mesos.TASK_FAILED, 1
	case "KILLED":
		st, fin = mesos.TASK_KILLED, 2
	default:
		return
	}
	ok = true
	return
}

func termEvent(hookId int, exit int, voluntary bool) *event.BasicTaskTerminated {
	st := mesos.TASK_FINISHED
	if exit != 0 || !voluntary {
		st = mesos.TASK_FAILED
	}
	return termEventFull(hookId, exit, voluntary, st)
}

func termEventFull(hookId int, exit int, voluntary bool, st mesos.TaskState) *event.BasicTaskTerminated {
	e := &event.BasicTaskTerminated{ExitCode: exit, VoluntaryTermination: voluntary, FinalMesosState: st}
	e.Type = occpb.DeviceEventType_BASIC_TASK_TERMINATED
	e.Origin.TaskId = mesos.TaskID{Value: taskId(hookId)}
	e.Origin.AgentId = mesos.AgentID{Value: "agent-verif"}
	e.Origin.ExecutorId = mesos.ExecutorID{Value: "executor-verif"}
	return e
}

func (b *bare) run(in Input) (obs Obs) {
	rec := b.rec
	rec.Reset()
	b.seq++
	id := uid.New()
	b.cap.setEnv(id.String())
	b.consul.Set("o2/runtime/run_number", "0")
	wf := buildWorkflow(in.Hooks)
	env, err := environment.VerifC08NewEnvironment(id, map[string]string{}, wf, in.Init)
	if err != nil {
		obs.Note = "cannot build environment: " + err.Error()
		return
	}
	obs.Awaits = awaitsOf(wf)
	hookById := map[string]int{}
	for _, h := range in.Hooks {
		if h.Kind == "task" {
			hookById[taskId(h.Id)] = h.Id
		}
	}
	var curOp *Op
	var bg sync.WaitGroup
	env.VerifC08SetHookHandler(func(hooks task.Tasks) error {
		ids := []int{}
		for _, t := range hooks {
			ids = append(ids, hookById[t.GetTaskId()])
		}
		rec.add(Rec{Kind: "T", Tasks: ids})
		op := curOp
		for _, hid := range ids {
			if op.TaskOut[strconv.Itoa(hid)] == "trigfail" {
				return errors.New("verif trigger failed")
			}
		}
		// simulated executors: deliver the scripted terminations in id order; the late ones after
		bg.Add(1)
		go func() {
			defer bg.Done()
			// a hook task ends: recorded, then its termination report goes to the collector
			deliver := func(hid int, e *event.BasicTaskTerminated, ms int) {
				rec.add(Rec{Kind: "F", Hook: hid})
				env.VerifC08DeliverEvent(e, ms)
			}
			var late, okslow []int
			for _, hid := range ids {
				switch op.TaskOut[strconv.Itoa(hid)] {
				case "", "ok":
					deliver(hid, termEvent(hid, 0, true), 3000)
				case "okdelay": // ends successfully after a while, well within its time-out
					time.Sleep(10 * time.Millisecond)
					deliver(hid, termEvent(hid, 0, true), 3000)
				case "exit":
					deliver(hid, termEvent(hid, 3, true), 3000)
				case "invol":
					deliver(hid, termEvent(hid, 0, false), 3000)
				case "timeout":
				case "late":
					late = append(late, hid)
				case "okslow":
					okslow = append(okslow, hid)
				default:
					if code, vol, st, _, ok := parseTermX(op.TaskOut[strconv.Itoa(hid)]); ok {
						deliver(hid, termEventFull(hid, code, vol, st), 3000)
					}
				}
			}
			if len(late) > 0 || len(okslow) > 0 {
				time.Sleep(3 * taskTimeoutShort)
				for _, hid := range late {
					deliver(hid, termEvent(hid, 0, true), 200)
				}
				for _, hid := range okslow {
					deliver(hid, termEvent(hid, 0, true), 200)
				}
			}
		}()
		return nil
	})

	for i := range in.Ops {
		op := &in.Ops[i]
		curOp = op
		rec.SetOp(i)
		for _, h := range op.Fail {
			rec.SetFail(h, i)
		}
		for _, h := range op.Slow {
			rec.SetSlow(h, i, slowDelay)
		}
		for _, h := range op.Slower {
			rec.SetSlow(h, i, 4*slowDelay)
		}
		if op.PauseMs > 0 {
			time.Sleep(time.Duration(op.PauseMs) * time.Millisecond)
		}
		rec.add(Rec{Kind: "O"})
		var opErr error
		var pushMu sync.Mutex
		var pushed *Snap
		onPush := func(args map[string]string) {
			pushMu.Lock()
			pushed = pushOf(args)
			pushMu.Unlock()
		}
		done := make(chan struct{})
		go func() {
			defer close(done)
			switch op.Ev {
			case "LEAVE_CANCEL":
				opErr = env.VerifC08HandleAllHooks("leave_" + env.CurrentState())
				env.VerifC08CancelPending()
			case "FORCE_ERROR":
				// the sequence of the workflow-state watcher (subscribeToWfState)
				opErr = env.TryTransition(anyTransition("GO_ERROR", op, rec, env, onPush))
				if opErr != nil {
					env.ForceError() // what the watcher and ControlEnvironment do when GO_ERROR fails
				}
			default:
				opErr = env.TryTransition(anyTransition(op.Ev, op, rec, env, onPush))
			}
		}()
		select {
		case <-done:
		case <-time.After(20 * time.Second):
			obs.Hung = true
			obs.CrashAt = i
			obs.Recs = rec.Records()
			return
		}
		bg.Wait()
		rec.add(Rec{Kind: "X"})
		oo := OpObs{Err: classify(opErr), State: env.CurrentState(), RnField: env.GetCurrentRunNumber()}
		if opErr != nil {
			oo.ErrText = opErr.Error()
		}
		oo.Pending = pendingOf(env, rec)
		if vs, err := env.Workflow().ConsolidatedVarStack(); err == nil {
			oo.Vars = snapOf(vs)
		}
		pushMu.Lock()
		oo.Push = pushed
		pushMu.Unlock()
		obs.Ops = append(obs.Ops, oo)
	}
	// let call goroutines that are still sleeping finish, so that their records do not leak into
	// the next case
	waitQuiet(rec)
	obs.Recs = rec.Records()
	return
}

// waitQuiet waits until every probe function that began has returned.
func waitQuiet(rec *Recorder) {
	deadline := time.Now().Add(3 * time.Second)
	for {
		n := 0
		for _, r := range rec.Records() {
			switch r.Kind {
			case "S":
				n++
			case "E":
				n--
			}
		}
		if n == 0 || time.Now().After(deadline) {
			return
		}
		time.Sleep(200 * time.Microsecond)
	}
}

// realTransition: the package's own transition object for the event, run against a stand-in task
// manager (a buffered message channel); the answer to its request is delivered the way the
// environment manager does it.
func realTransition(name string, op *Op, rec *Recorder, env *environment.Environment, onPush func(map[string]string)) environment.Transition {
	taskman := &task.Manager{MessageChannel: make(chan *task.TaskmanMessage, 1)}
	var t environment.Transition
	switch name {
	case "START_ACTIVITY":
		t = environment.NewStartActivityTransition(taskman)
	case "STOP_ACTIVITY":
		t = environment.NewStopActivityTransition(taskman)
	case "GO_ERROR":
		t = environment.NewGoErrorTransition(taskman)
	default:
		return mkTransition(name, op, rec)
	}
	return environment.VerifC10RealTransition{T: t, Before: func() {
		rec.add(Rec{Kind: "B"})
		if name == "GO_ERROR" {
			return // sends nothing to the task manager
		}
		go func() {
			select {
			case msg := <-taskman.MessageChannel:
				if onPush != nil {
					args := map[string]string{}
					for k, v := range msg.GetArguments() {
						args[k] = v
					}
					onPush(args)
				}
			case <-time.After(10 * time.Second):
				return
			}
			if op.Body == "fail" {
				env.VerifC10TasksStateChanged(errors.New(bodyErrText))
			} else {
				env.VerifC10TasksStateChanged(nil)
			}
		}()
	}}
}

func anyTransition(name string, op *Op, rec *Recorder, env *environment.Environment, onPush func(map[string]string)) environment.Transition {
	if op.Real {
		return realTransition(name, op, rec, env, onPush)
	}
	return mkTransition(name, op, rec)
}

func mkTransition(name string, op *Op, rec *Recorder) environment.VerifC08Transition {
	return environment.VerifC08Transition{Name: name, Body: func(env *environment.Environment) error {
		rec.add(Rec{Kind: "B"})
		if op.Body == "fail" {
			return errors.New(bodyErrText)
		}
		return nil
	}}
}
