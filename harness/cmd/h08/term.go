package main

// Printing of inputs and observations as Coq terms of coq/model/EnvHooks.v.

import (
	"fmt"
	"sort"
	"strconv"
	"strings"

	"github.com/AliceO2Group/Control/core/workflow/callable"

	"verif/harness/internal/gen"
)

var evNames = []string{"DEPLOY", "CONFIGURE", "RESET", "START_ACTIVITY", "STOP_ACTIVITY", "EXIT", "GO_ERROR", "RECOVER"}
var stNames = []string{"STANDBY", "DEPLOYED", "CONFIGURED", "RUNNING", "ERROR", "DONE"}

func isIn(x string, l []string) bool {
	for _, y := range l {
		if x == y {
			return true
		}
	}
	return false
}

// namer maps trigger names to mname terms; unknown names get MOther numbers (per case).
type namer struct{ other map[string]int }

func newNamer() *namer { return &namer{other: map[string]int{}} }

func (n *namer) mname(name string) string {
	switch {
	case name == "DESTROY":
		return "MDestroy"
	case name == "after_DESTROY":
		return "MAfterDestroy"
	case strings.HasPrefix(name, "before_") && isIn(name[7:], evNames):
		return "(MBefore " + name[7:] + ")"
	case strings.HasPrefix(name, "after_") && isIn(name[6:], evNames):
		return "(MAfter " + name[6:] + ")"
	case strings.HasPrefix(name, "leave_") && isIn(name[6:], stNames):
		return "(MLeave " + name[6:] + ")"
	case strings.HasPrefix(name, "enter_") && isIn(name[6:], stNames):
		return "(MEnter " + name[6:] + ")"
	}
	k, ok := n.other[name]
	if !ok {
		k = len(n.other)
		n.other[name] = k
	}
	return fmt.Sprintf("(MOther %d)", k)
}

func (n *namer) point(expr string) string {
	name, w := callable.ParseTriggerExpression(expr)
	return gen.Pair(n.mname(name), gen.Z(int64(w)))
}

func (n *namer) pointNW(name string, w int) string {
	return gen.Pair(n.mname(name), gen.Z(int64(w)))
}

func (n *namer) step(step string) (string, bool) {
	if strings.HasPrefix(step, "tasks_") && isIn(step[6:], evNames) {
		return "(STasks " + step[6:] + ")", true
	}
	m := n.mname(step)
	if strings.HasPrefix(m, "(MOther") || m == "MDestroy" || m == "MAfterDestroy" {
		return "", false
	}
	return "(SMoment " + m + ")", true
}

func nlist(xs []int) string {
	items := make([]string, len(xs))
	for i, x := range xs {
		items[i] = strconv.Itoa(x)
	}
	return gen.List(items)
}

var toutTerm = map[string]string{"okdelay": "TOk", "ok": "TOk", "exit": "TExit", "invol": "TInvol", "timeout": "TTimeout",
	"late": "TLate", "okslow": "TOkSlow", "trigfail": "TTrigFail"}

func hookTerm(n *namer, h Hook) string {
	kind := "HCall"
	await := declaredAwait(h)
	if h.Kind == "task" {
		kind = "HTask"
		await = h.Trig
	}
	return fmt.Sprintf("(mkHook %d %s %s %s %s)", h.Id, kind, n.point(h.Trig), n.point(await), gen.Bool(h.Crit))
}

func opTerm(level string, o Op) string {
	kind := "OInvalid"
	switch {
	case isIn(o.Ev, evNames):
		kind = "(OEvent " + o.Ev + ")"
	case o.Ev == "FORCE_ERROR":
		kind = "OForceError"
	case o.Ev == "LEAVE_CANCEL":
		kind = "OLeaveCancel"
	case o.Ev == "TEARDOWN":
		kind = "OTeardown"
	}
	body := "BOk"
	if o.Body == "fail" {
		body = "BFail"
		if level == "sim" || o.Real {
			body = "BFailReal"
		}
	}
	keys := make([]int, 0, len(o.TaskOut))
	for k := range o.TaskOut {
		i, _ := strconv.Atoi(k)
		keys = append(keys, i)
	}
	sort.Ints(keys)
	var touts []string
	for _, k := range keys {
		v := o.TaskOut[strconv.Itoa(k)]
		tt, known := toutTerm[v]
		if code, vol, _, fin, ok := parseTermX(v); ok {
			tt, known = fmt.Sprintf("(TTermX %s %s %d)", gen.Z(int64(code)), gen.Bool(vol), fin), true
		}
		if !known {
			tt = "TOk"
		}
		touts = append(touts, gen.Pair(strconv.Itoa(k), tt))
	}
	return fmt.Sprintf("(mkOp %s %s %s %s [])", kind, body, nlist(o.Fail), gen.List(touts))
}

func ovTerm(v string) string {
	switch v {
	case absent:
		return "VAbsent"
	case "":
		return "VEmpty"
	}
	if n, err := strconv.ParseUint(v, 10, 64); err == nil {
		return fmt.Sprintf("(VSet %d)", n)
	}
	return "(VSet 0)"
}

func snapTerm(s *Snap) string {
	if s == nil {
		return "osnap0"
	}
	return fmt.Sprintf("(mkOsnap %s %s %s %s %s %s)", ovTerm(s.Rn), ovTerm(s.Rn2), ovTerm(s.Sosor), ovTerm(s.Eosor), ovTerm(s.Soeor), ovTerm(s.Eoeor))
}

func evCode(tr string) int {
	for i, e := range evNames {
		if e == tr {
			return i
		}
	}
	return 8 // TEARDOWN
}

func statusCode(s string) int {
	switch s {
	case "STARTED":
		return 0
	case "DONE_OK":
		return 1
	case "DONE_ERROR":
		return 2
	}
	return 9
}

func recTerms(n *namer, in Input, recs []Rec) []string {
	var out []string
	for _, r := range recs {
		switch r.Kind {
		case "S":
			out = append(out, fmt.Sprintf("OS %d %d %s", r.Hook, r.Op, snapTerm(r.Snap)))
		case "E":
			out = append(out, fmt.Sprintf("OE %d %d", r.Hook, r.Op))
		case "M":
			if r.Op < len(in.Ops) && (in.Ops[r.Op].Ev == "TEARDOWN") {
				continue
			}
			if st, ok := n.step(r.Step); ok {
				out = append(out, fmt.Sprintf("OM %s %s", st, gen.Bool(r.Err)))
			}
		case "B":
			out = append(out, "OB")
		case "T":
			out = append(out, "OT "+nlist(r.Tasks))
		case "F":
			out = append(out, fmt.Sprintf("OF %d", r.Hook))
		case "R":
			out = append(out, fmt.Sprintf("OR %d %d %d", evCode(r.Run.Transition), statusCode(r.Run.Status), r.Run.Rn))
		case "O":
			out = append(out, "OO")
		case "X":
			out = append(out, "OX")
		}
	}
	return out
}

func resTerm(n *namer, e ErrClass) string {
	switch e.Kind {
	case "ok":
		return "XOk"
	case "body":
		return "XBody"
	case "invalid":
		return "XInvalid"
	case "hook":
		var items []string
		for _, x := range e.Entries {
			var ids []string
			for _, id := range x.Ids {
				ids = append(ids, gen.Pair(strconv.Itoa(id[0]), strconv.Itoa(id[1])))
			}
			items = append(items, fmt.Sprintf("mkOerr %s %d %s %s", n.mname(x.Trigger), x.Count, gen.List(ids), nlist(x.Tasks)))
		}
		return "(XHook " + gen.List(items) + ")"
	}
	return "XOther"
}

func stTerm(s string) string {
	if isIn(s, stNames) {
		return s
	}
	return "DONE"
}

func opObsTerm(n *namer, oo OpObs) string {
	var pend []string
	for _, p := range oo.Pending {
		h, o := p.Hook, p.Op
		if h < 0 || o < 0 { // its function never began: cannot be named
			h, o = 999999, 999999
		}
		pend = append(pend, gen.Pair(gen.Pair(n.pointNW(p.Await, p.Weight), gen.Pair(strconv.Itoa(h), strconv.Itoa(o))), gen.Bool(p.Cancelled)))
	}
	push := "None"
	if p := oo.Push; p != nil {
		push = fmt.Sprintf("(Some (mkOpush %s %s %s %s %s))", ovTerm(p.Rn), ovTerm(p.Sosor), ovTerm(p.Eosor), ovTerm(p.Soeor), ovTerm(p.Eoeor))
	}
	return fmt.Sprintf("mkOpobs %s %s %s %d %s %s", resTerm(n, oo.Err), stTerm(oo.State), gen.List(pend), oo.RnField, snapTerm(oo.Vars), push)
}

func caseTerm(in Input, o Obs) string {
	if in.Level == "parse" {
		return fmt.Sprintf("CParse %s %s %s", gen.Str(in.Expr), gen.Str(o.Name), gen.Z(int64(o.Weight)))
	}
	n := newNamer()
	var hooks, ops, oos []string
	for _, h := range in.Hooks {
		hooks = append(hooks, hookTerm(n, h))
	}
	for _, op := range in.Ops {
		ops = append(ops, opTerm(in.Level, op))
	}
	for _, oo := range o.Ops {
		oos = append(oos, opObsTerm(n, oo))
	}
	init := in.Init
	if init == "" {
		init = "STANDBY"
	}
	var aws []string
	for _, a := range o.Awaits {
		aws = append(aws, gen.Pair(strconv.Itoa(a.Hook), n.point(a.Await)))
	}
	return fmt.Sprintf("CRun %s %s %s (mkObs %s %s %s %s %s)", gen.List(hooks), init, gen.List(ops),
		gen.List(recTerms(n, in, o.Recs)), gen.List(oos), gen.Bool(o.Crashed), gen.Bool(o.Hung), gen.List(aws))
}
