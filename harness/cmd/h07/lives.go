package main

// File backend across lives of the process: k sequential NewRunNumber calls on a fresh
// local.Service (a restarted core), then the process ends - a plain restart, a further call that
// dies inside its write-back after ioutil.WriteFile's O_TRUNC and before the data is written
// (the harness leaves what that call would leave: an empty file), a call that dies while creating
// the file, or a restart that finds another content (torn at system level, an operator, garbage).
// Model: fend / fend_sched / flives of model/RunCounter.v. The monitor judges the sequence of
// returned numbers across the restarts: never a number that is not larger than an earlier one.

import (
	"fmt"
	"os"
	"strconv"

	"github.com/AliceO2Group/Control/apricot/local"

	"verif/harness/internal/gen"
)

type lifeJ struct {
	K       int    `json:"k"`
	End     string `json:"end"` // restart die-write die-create corrupt
	Content string `json:"content,omitempty"`
}

type livesInput struct {
	File0 *string `json:"file0"`
	Lives []lifeJ `json:"lives"`
}

var backendYaml string

func endTerm(l lifeJ) string {
	switch l.End {
	case "die-write":
		return "EDieInWrite"
	case "die-create":
		return "EDieInCreate"
	case "corrupt":
		return "ECorrupt " + gen.Str(l.Content)
	default:
		return "ERestart"
	}
}

// what a call that dies at that point leaves behind
func dieInWrite() {
	raw, err := os.ReadFile(counterFile())
	if os.IsNotExist(err) {
		// created with "0", read, truncated for the write-back of 1
		if err := os.WriteFile(counterFile(), nil, 0o644); err != nil {
			panic(err)
		}
		return
	}
	if err != nil {
		panic(err)
	}
	v, perr := strconv.ParseUint(string(raw), 10, 32)
	if perr != nil || v == 4294967295 {
		return // the call fails before it writes anything
	}
	if err := os.Truncate(counterFile(), 0); err != nil { // what O_TRUNC does
		panic(err)
	}
}

func dieInCreate() {
	if _, err := os.Stat(counterFile()); os.IsNotExist(err) {
		if err := os.WriteFile(counterFile(), nil, 0o644); err != nil {
			panic(err)
		}
	}
}

func runFileLives(in livesInput, kind string) gen.Case {
	setFile(in.File0)
	lives := make([]string, len(in.Lives))
	resTerms := make([]string, len(in.Lives))
	obs := make([][]string, len(in.Lives))
	for li, l := range in.Lives {
		svc, err := local.NewService("file://" + backendYaml) // a restarted core: nothing survives but the file
		if err != nil {
			panic(err)
		}
		items := make([]string, l.K)
		obs[li] = make([]string, l.K)
		for i := 0; i < l.K; i++ {
			v, err := svc.NewRunNumber()
			if err != nil {
				items[i], obs[li][i] = gen.None(), "error"
			} else {
				items[i], obs[li][i] = gen.Some(gen.N(uint64(v))), strconv.FormatUint(uint64(v), 10)
			}
		}
		switch l.End {
		case "die-write":
			dieInWrite()
		case "die-create":
			dieInCreate()
		case "corrupt":
			if err := os.WriteFile(counterFile(), []byte(l.Content), 0o644); err != nil {
				panic(err)
			}
		}
		lives[li] = gen.Pair(strconv.Itoa(l.K), endTerm(l))
		resTerms[li] = gen.List(items)
	}
	var final *string
	if b, err := os.ReadFile(counterFile()); err == nil {
		s := string(b)
		final = &s
	}
	term := fmt.Sprintf("CFileLives %s %s %s %s", optStr(in.File0), gen.List(lives), gen.List(resTerms), optStr(final))
	return gen.Case{Term: term, Kind: kind, Input: in, Obs: map[string]interface{}{"results": obs, "final": final}}
}

func sp(s string) *string { return &s }

// hand-written lives, run first
func livesCorpus() []livesInput {
	return []livesInput{
		// five runs, the sixth start dies in its write-back, the restarted core must not begin at 1 again
		{nil, []lifeJ{{5, "die-write", ""}, {2, "restart", ""}, {1, "restart", ""}}},
		{sp("41"), []lifeJ{{2, "die-write", ""}, {1, "restart", ""}, {1, "die-write", ""}, {1, "restart", ""}}},
		// dies while creating the file
		{nil, []lifeJ{{0, "die-create", ""}, {2, "restart", ""}}},
		{nil, []lifeJ{{0, "die-write", ""}, {2, "restart", ""}}},
		// contents that are not plain numbers: a reader that forgives them must not go back
		{sp("7"), []lifeJ{{3, "corrupt", "3\n"}, {2, "restart", ""}}},
		{sp("7"), []lifeJ{{3, "corrupt", "9\n"}, {2, "restart", ""}}},
		{sp("7"), []lifeJ{{3, "corrupt", " "}, {1, "restart", ""}}},
		{sp("7"), []lifeJ{{3, "corrupt", "\n"}, {1, "restart", ""}}},
		{sp("7"), []lifeJ{{3, "corrupt", ""}, {1, "restart", ""}, {1, "corrupt", "\t\n"}, {1, "restart", ""}}},
		{sp("120"), []lifeJ{{3, "corrupt", "12\x00"}, {1, "restart", ""}}},
		{sp("120"), []lifeJ{{3, "corrupt", "1 23"}, {1, "restart", ""}}},
		// plain numbers from outside: a lowered counter (nothing required), a raised one
		{sp("7"), []lifeJ{{3, "corrupt", "1"}, {2, "restart", ""}}},
		{sp("7"), []lifeJ{{2, "corrupt", "50"}, {2, "die-write", ""}, {1, "restart", ""}}},
		// the end of the range: the dying call fails before it truncates
		{sp("4294967293"), []lifeJ{{2, "die-write", ""}, {1, "restart", ""}}},
		{sp("abc"), []lifeJ{{1, "die-write", ""}, {1, "restart", ""}}},
	}
}

func genLives(rg *gen.Rand) livesInput {
	var in livesInput
	last := uint64(0) // the generator's idea of the last number, to aim the contents
	switch x := rg.Intn(100); {
	case x < 25:
	case x < 70:
		last = uint64(rg.Intn(100000))
		in.File0 = sp(strconv.FormatUint(last, 10))
	case x < 85:
		s := rg.Pick(numberValues)
		in.File0 = &s
		last, _ = strconv.ParseUint(s, 10, 32)
	default:
		s := rg.Pick(junkValues)
		in.File0 = &s
	}
	n := rg.Range(2, 4)
	for i := 0; i < n; i++ {
		l := lifeJ{K: rg.Intn(5)}
		if i == n-1 && l.K == 0 {
			l.K = 1
		}
		last += uint64(l.K)
		d := strconv.FormatUint(last, 10)
		x := rg.Intn(100)
		if i < n-2 && rg.Chance(4, 5) {
			x = 35 + rg.Intn(15) // early lives mostly end with a plain restart: what follows a torn file is only failures
		}
		switch {
		case x < 35:
			l.End = "die-write"
		case x < 50:
			l.End = "restart"
		case x < 55:
			l.End = "die-create"
		default:
			l.End = "corrupt"
			lower := strconv.FormatUint(last/2, 10)
			switch rg.Intn(16) {
			case 0:
				l.Content = ""
			case 1:
				l.Content = " "
			case 2:
				l.Content = "\n"
			case 3:
				l.Content = "\t\r\n"
			case 4:
				l.Content = d + "\n"
			case 5:
				l.Content = lower + "\n"
			case 6:
				l.Content = " " + lower
			case 7:
				l.Content = lower + " "
			case 8:
				l.Content = d[:len(d)/2] // the first digits only
			case 9:
				l.Content = strconv.FormatUint(last+uint64(rg.Range(1, 50)), 10)
				last, _ = strconv.ParseUint(l.Content, 10, 32)
			case 10:
				l.Content = "0\n"
			case 11:
				l.Content = lower + "\x00\x00"
			case 12:
				l.Content = "0"
			case 13:
				l.Content = "\n" + lower + "\n"
			default:
				l.Content = rg.Pick(junkValues)
			}
		}
		in.Lives = append(in.Lives, l)
	}
	return in
}
