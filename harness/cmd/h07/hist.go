package main

// Histories: sequences of requests (START_ACTIVITY with every outcome of its hooks and of the
// transition body, STOP_ACTIVITY, GO_ERROR, RECOVER, CONFIGURE, RESET, ...) on several real
// Environments that share the gated counter. Every START attempt must draw a fresh number from
// the counter: observed per operation are the requests it made at the KV server, the error, the
// state and current run number afterwards, and the run number that the hooks of weight >= 0 of
// before_START_ACTIVITY were shown (model: hop / hstep / hrun_res of model/RunCounter.v).

import (
	"errors"
	"fmt"
	"strconv"
	"time"

	"github.com/AliceO2Group/Control/apricot/local"
	"github.com/AliceO2Group/Control/common/utils/uid"
	"github.com/AliceO2Group/Control/core/environment"
	"github.com/AliceO2Group/Control/core/integration"
	"github.com/AliceO2Group/Control/core/task"
	"github.com/AliceO2Group/Control/core/workflow"
	"github.com/spf13/viper"

	"verif/harness/internal/gen"
	"verif/harness/internal/vplugin"
)

var histRec *vplugin.Recorder

func histSetup() {
	histRec = vplugin.NewRecorder("run_number")
	integration.RegisterPlugin("verif", "verifEndpoint", vplugin.New(histRec))
	viper.Set("verifEndpoint", "http://example.invalid")
	viper.Set("integrationPlugins", []string{"verif"})
}

type hstepJ struct {
	Op  string `json:"op"`            // serve fail lost crash put del
	Own bool   `json:"own,omitempty"` // a request of the attempt itself; otherwise of other caller I
	I   int    `json:"i,omitempty"`
	V   string `json:"v,omitempty"`
}

type histOp struct {
	Env       int      `json:"env"`
	Ev        string   `json:"ev"`
	NegFail   bool     `json:"neg_fail,omitempty"`   // critical hook before_START_ACTIVITY-10 fails
	PosFail   bool     `json:"pos_fail,omitempty"`   // critical hook before_START_ACTIVITY+10 fails
	LeaveFail bool     `json:"leave_fail,omitempty"` // critical hook leave_CONFIGURED fails
	StopFail  bool     `json:"stop_fail,omitempty"`  // critical hook before_STOP_ACTIVITY fails
	Body      string   `json:"body,omitempty"`       // "" | fail (transition body) | taskfail (real START transition, tasks fail)
	Steps     []hstepJ `json:"steps,omitempty"`
}

type histInput struct {
	Clock0 uint64   `json:"clock0"`
	States []int    `json:"states"`
	NOther int      `json:"nother"`
	Ops    []histOp `json:"ops"`
}

type histOpObs struct {
	Err   bool   `json:"err"`
	State string `json:"state"`
	RN    uint32 `json:"run_number"`
	Seen  string `json:"seen"` // "" = the hooks of weight >= 0 did not run
}

var evCodes = map[string]int{"DEPLOY": 0, "CONFIGURE": 1, "RESET": 2, "START_ACTIVITY": 3, "STOP_ACTIVITY": 4,
	"EXIT": 5, "GO_ERROR": 6, "RECOVER": 7}

func modeOf(op string) int {
	switch op {
	case "serve":
		return modeServe
	case "fail":
		return modeFail
	case "lost":
		return modeLost
	default:
		return modeCrash
	}
}

func astepTerm(s hstepJ) string {
	if s.Own {
		return fmt.Sprintf("AOwn %d", modeOf(s.Op))
	}
	return "AOther (" + stepTerm(stepJ{Op: s.Op, I: s.I, V: s.V}) + ")"
}

func hopTerm(o histOp) string {
	if o.Ev == "START_ACTIVITY" {
		rest := 0
		switch {
		case o.PosFail || o.LeaveFail || o.Body == "fail":
			rest = 1
		case o.Body == "taskfail":
			rest = 2
		}
		items := make([]string, len(o.Steps))
		for i, s := range o.Steps {
			items[i] = astepTerm(s)
		}
		return fmt.Sprintf("HStart %d %s %d %s", o.Env, gen.Bool(!o.NegFail), rest, gen.List(items))
	}
	done := !(o.Body == "fail" || (o.Ev == "STOP_ACTIVITY" && o.StopFail))
	return fmt.Sprintf("HOther %d %d %s", o.Env, evCodes[o.Ev], gen.Bool(done))
}

func probeId(env int, which string) string { return fmt.Sprintf("e%d%s", env, which) }

func histWorkflow(env int) workflow.Role {
	call := func(which, trigger string) workflow.Role {
		return workflow.NewCallRole("c"+which,
			task.Traits{Trigger: trigger, Await: trigger, Timeout: "5s", Critical: true},
			fmt.Sprintf("verif.Probe(%q)", probeId(env, which)), "")
	}
	return workflow.NewAggregatorRole("root", []workflow.Role{
		call("neg", "before_START_ACTIVITY-10"),
		call("pos", "before_START_ACTIVITY+10"),
		call("leave", "leave_CONFIGURED"),
		call("stop", "before_STOP_ACTIVITY"),
	})
}

func histTransition(env *environment.Environment, o histOp) environment.Transition {
	if o.Ev == "START_ACTIVITY" && o.Body == "taskfail" {
		// the package's own START transition against a stand-in task manager whose tasks fail
		taskman := &task.Manager{MessageChannel: make(chan *task.TaskmanMessage, 1)}
		return environment.VerifC10RealTransition{T: environment.NewStartActivityTransition(taskman), Before: func() {
			go func() {
				select {
				case <-taskman.MessageChannel:
				case <-time.After(10 * time.Second):
					return
				}
				env.VerifC10TasksStateChanged(errors.New("verif: tasks failed to start"))
			}()
		}}
	}
	fail := o.Body == "fail"
	return environment.VerifC08Transition{Name: o.Ev, Body: func(*environment.Environment) error {
		if fail {
			return errors.New("verif: transition body failed")
		}
		return nil
	}}
}

func runHist(f *fake, in histInput, kind string) gen.Case {
	f.reset(in.Clock0)
	envs := make([]*environment.Environment, len(in.States))
	for i, s := range in.States {
		env, err := environment.VerifC08NewEnvironment(uid.New(), map[string]string{}, histWorkflow(i), envStates[s])
		if err != nil {
			panic(err)
		}
		envs[i] = env
	}
	f.reset(in.Clock0)
	run := &caseRun{events: make(chan event, 64), lid2cid: map[int]int{}}
	r := &runner{f: f, run: run, st: map[int]*cstat{}}
	for j := 0; j < in.NOther && j < 8; j++ {
		run.lid2cid[j] = 2*j + 1
	}
	// other callers (odd ids): a fresh Service each, as in runSched
	r.start = func(cid int) {
		svc, err := local.NewService("consul://" + f.addrs[(cid/2)%8])
		if err != nil {
			panic(err)
		}
		go func() {
			v, e := svc.NewRunNumber()
			run.events <- event{caller: cid, finished: true, res: result{val: v, err: e}}
		}()
	}
	f.mu.Lock()
	f.run = run
	f.mu.Unlock()

	obs := make([]histOpObs, len(in.Ops))
	resItems := make([]string, len(in.Ops))
	for k, o := range in.Ops {
		cid := 2 * k
		env := envs[o.Env]
		f.mu.Lock()
		run.lid2cid[envLid] = cid
		f.mu.Unlock()
		histRec.Reset()
		histRec.SetFail(probeId(o.Env, "neg"), o.NegFail)
		histRec.SetFail(probeId(o.Env, "pos"), o.PosFail)
		histRec.SetFail(probeId(o.Env, "leave"), o.LeaveFail)
		histRec.SetFail(probeId(o.Env, "stop"), o.StopFail)
		st := r.stat(cid)
		st.started = true
		tr := histTransition(env, o)
		go func() {
			e := env.TryTransition(tr)
			run.events <- event{caller: cid, finished: true,
				res: result{err: e, state: env.CurrentState(), rn: env.GetCurrentRunNumber()}}
		}()
		r.wait(cid)
		for _, s := range o.Steps {
			switch {
			case s.Own:
				r.decide(cid, modeOf(s.Op))
			case s.Op == "put" || s.Op == "del":
				r.exec([]stepJ{{Op: s.Op, V: s.V}}, nil, 0)
			default:
				r.exec([]stepJ{{Op: s.Op, I: 2*s.I + 1}}, nil, 0)
			}
		}
		// the request must return before the next one is made; unblock it if the schedule left it
		// at the gate (not part of the schedule, not logged: the caller gets an error)
		for !st.finished {
			if st.pending == nil {
				r.wait(cid)
				continue
			}
			p := st.pending
			st.pending = nil
			p.decide <- modeCleanup
			r.wait(cid)
		}
		oo := histOpObs{Err: st.res.err != nil, State: st.res.state, RN: st.res.rn}
		seen := gen.None()
		for _, e := range histRec.Events() {
			if e.Id == probeId(o.Env, "pos") && e.Kind == "start" {
				oo.Seen = e.Vars["run_number"]
				n, err := strconv.ParseUint(oo.Seen, 10, 32)
				if err != nil {
					n = 0
					oo.Seen = "?" + oo.Seen
				}
				seen = gen.Some(gen.N(n))
			}
		}
		obs[k] = oo
		resItems[k] = fmt.Sprintf("mkRes %s %d %d %s", gen.Bool(oo.Err), stateCode(oo.State), oo.RN, seen)
	}
	others := make([]string, 0, in.NOther)
	othersJ := make([]string, 0, in.NOther)
	for j := 0; j < in.NOther; j++ {
		s := r.stat(2*j + 1)
		switch {
		case s.dead:
			others, othersJ = append(others, "RDead"), append(othersJ, "dead")
		case !s.finished:
			others, othersJ = append(others, "RPending"), append(othersJ, "pending")
		case s.res.err != nil:
			others, othersJ = append(others, "RErr"), append(othersJ, "error")
		default:
			others, othersJ = append(others, fmt.Sprintf("RNum %d", s.res.val)), append(othersJ, strconv.FormatUint(uint64(s.res.val), 10))
		}
	}
	f.mu.Lock()
	logCopy := append([]logEntry(nil), f.log...)
	nOthers := f.others
	f.mu.Unlock()
	found, val, idx := f.current()
	r.cleanup()
	f.mu.Lock()
	f.run = nil
	f.mu.Unlock()

	states := make([]string, len(in.States))
	for i, s := range in.States {
		states[i] = strconv.Itoa(s)
	}
	ops := make([]string, len(in.Ops))
	for i, o := range in.Ops {
		ops[i] = hopTerm(o)
	}
	term := fmt.Sprintf("CHist %d %s %d %s %s %s %s %s", in.Clock0, gen.List(states), in.NOther, gen.List(ops),
		logTerm(logCopy), gen.List(resItems), gen.List(others), kvTerm(found, val, idx))
	final := "absent"
	if found {
		final = fmt.Sprintf("%q@%d", val, idx)
	}
	return gen.Case{Term: term, Kind: kind, Input: in,
		Obs: map[string]interface{}{"log": logCopy, "ops": obs, "others": othersJ, "final": final, "other_requests": nOthers}}
}

// ---------------------------------------------------------------- corpus and generator

func own(op string) hstepJ { return hstepJ{Op: op, Own: true} }

var okDraw = []hstepJ{own("serve"), own("serve")}

func startOp(env int) histOp { return histOp{Env: env, Ev: "START_ACTIVITY", Steps: okDraw} }
func evOp(env int, ev string) histOp {
	return histOp{Env: env, Ev: ev}
}

// hand-written histories, run first: one per way in which a START attempt follows an earlier one
func histCorpus() []histInput {
	posFail := startOp(0)
	posFail.PosFail = true
	leaveFail := startOp(0)
	leaveFail.LeaveFail = true
	bodyFail := startOp(0)
	bodyFail.Body = "fail"
	taskFail := startOp(0)
	taskFail.Body = "taskfail"
	negFail := startOp(0)
	negFail.NegFail = true
	stopFail := evOp(0, "STOP_ACTIVITY")
	stopFail.StopFail = true
	casRefused := histOp{Env: 1, Ev: "START_ACTIVITY", Steps: []hstepJ{own("serve"), {Op: "put", V: "50"}, own("serve")}}
	getFails := histOp{Env: 0, Ev: "START_ACTIVITY", Steps: []hstepJ{own("fail")}}
	putLost := histOp{Env: 0, Ev: "START_ACTIVITY", Steps: []hstepJ{own("serve"), own("lost")}}
	raced := histOp{Env: 0, Ev: "START_ACTIVITY", Steps: []hstepJ{own("serve"), {Op: "serve", I: 0}, {Op: "serve", I: 0}, own("serve")}}
	return []histInput{
		// a start cancelled by a hook of weight >= 0 (after the draw), then started again
		{3, []int{2}, 0, []histOp{posFail, startOp(0)}},
		{3, []int{2}, 0, []histOp{leaveFail, startOp(0), evOp(0, "STOP_ACTIVITY"), bodyFail, startOp(0)}},
		// a run ended by GO_ERROR, recovered, configured, started again
		{0, []int{2}, 0, []histOp{startOp(0), evOp(0, "GO_ERROR"), evOp(0, "RECOVER"), evOp(0, "CONFIGURE"), startOp(0)}},
		// start / stop / start, twice
		{7, []int{2}, 0, []histOp{startOp(0), evOp(0, "STOP_ACTIVITY"), startOp(0), evOp(0, "STOP_ACTIVITY"), startOp(0)}},
		// tasks fail to start (number cleared), hook of negative weight fails (no draw), then a start
		{1, []int{2}, 0, []histOp{taskFail, negFail, startOp(0)}},
		// a cancelled start, then a start whose draw fails: the stale number stays, no run
		{1, []int{2}, 0, []histOp{posFail, getFails, putLost, startOp(0)}},
		// a stop cancelled by its hook: still running under the same number; start is inappropriate
		{1, []int{2}, 0, []histOp{startOp(0), stopFail, startOp(0), evOp(0, "STOP_ACTIVITY"), startOp(0)}},
		// two environments alternate; one CAS refused because a foreign writer moved the counter
		{5, []int{2, 2}, 0, []histOp{startOp(0), startOp(1), evOp(0, "STOP_ACTIVITY"), casRefused, startOp(0), startOp(1)}},
		// an environment that is not configured yet; cancelled start on one, start on the other
		{5, []int{1, 2}, 0, []histOp{startOp(0), posFail, evOp(0, "CONFIGURE"), startOp(0), startOp(0)}},
		// another core's caller takes a number between the read and the CAS of the attempt
		{2, []int{2}, 1, []histOp{raced, startOp(0)}},
		// RESET / CONFIGURE between a cancelled start and the next one
		{2, []int{2}, 0, []histOp{posFail, evOp(0, "RESET"), evOp(0, "CONFIGURE"), startOp(0)}},
		// at the end of the range: the draw fails, a stale number must not be taken instead
		{2, []int{2}, 0, []histOp{{Env: 0, Ev: "START_ACTIVITY", PosFail: true, Steps: []hstepJ{{Op: "put", V: "4294967294"}, own("serve"), own("serve")}}, startOp(0), startOp(0)}},
	}
}

func genHist(rg *gen.Rand) histInput {
	in := histInput{Clock0: uint64(rg.Intn(60))}
	nEnv := 1 + rg.Intn(3)
	if rg.Chance(1, 2) {
		nEnv = 1
	}
	cur := make([]int, nEnv) // the generator's own idea of the state, to aim the operations
	run := make([]bool, nEnv)
	for i := range cur {
		cur[i] = 2
		if rg.Chance(1, 6) {
			cur[i] = []int{0, 1, 5}[rg.Intn(3)]
		}
	}
	in.States = append([]int(nil), cur...)
	if rg.Chance(1, 4) {
		in.NOther = 1 + rg.Intn(3)
	}
	otherUsed := 0
	nOps := rg.Range(3, 10)
	for len(in.Ops) < nOps {
		e := rg.Intn(nEnv)
		var o histOp
		x := rg.Intn(100)
		switch cur[e] {
		case 2: // CONFIGURED
			switch {
			case x < 78:
				o = histOp{Env: e, Ev: "START_ACTIVITY"}
				// the draw
				y := rg.Intn(100)
				switch {
				case y < 70:
					o.Steps = append(o.Steps, own("serve"))
					z := rg.Intn(100)
					switch {
					case z < 8:
						o.Steps = append(o.Steps, hstepJ{Op: "put", V: strconv.Itoa(1000*(len(in.Ops)+1) + rg.Intn(500))}) // never lowers the counter
					case z < 12 && otherUsed < in.NOther:
						o.Steps = append(o.Steps, hstepJ{Op: "serve", I: otherUsed}, hstepJ{Op: "serve", I: otherUsed})
						otherUsed++
					case z < 14:
						o.Steps = append(o.Steps, hstepJ{Op: "del"})
					}
					o.Steps = append(o.Steps, own([]string{"serve", "serve", "serve", "serve", "serve", "serve", "serve", "fail", "lost", "crash"}[rg.Intn(10)]))
				case y < 80:
					o.Steps = append(o.Steps, own([]string{"fail", "lost", "crash"}[rg.Intn(3)]))
				case y < 86:
					o.Steps = append(o.Steps, hstepJ{Op: "put", V: rg.Pick(junkValues)}, own("serve"), own("serve"))
				case y < 92:
					o.Steps = append(o.Steps, hstepJ{Op: "put", V: rg.Pick(numberValues)}, own("serve"), own("serve"))
				default:
					o.Steps = append(o.Steps, own("serve")) // left at the gate: unblocked with an error
				}
				// what happens to the transition afterwards
				switch w := rg.Intn(100); {
				case w < 22:
					o.PosFail = true
				case w < 30:
					o.LeaveFail = true
				case w < 38:
					o.Body = "fail"
				case w < 46:
					o.Body = "taskfail"
				case w < 54:
					o.NegFail = true
				}
			case x < 84:
				o = evOp(e, "RESET")
			case x < 90:
				o = evOp(e, "GO_ERROR")
			case x < 95:
				o = evOp(e, []string{"STOP_ACTIVITY", "CONFIGURE", "RECOVER"}[rg.Intn(3)]) // inappropriate
			default:
				o = evOp(e, "RESET")
				o.Body = "fail"
			}
		case 3: // RUNNING
			switch {
			case x < 50:
				o = evOp(e, "STOP_ACTIVITY")
				if rg.Chance(1, 6) {
					o.StopFail = true
				}
			case x < 85:
				o = evOp(e, "GO_ERROR")
			default:
				o = histOp{Env: e, Ev: "START_ACTIVITY", Steps: okDraw} // inappropriate: no draw
			}
		case 5: // ERROR
			o = evOp(e, "RECOVER")
		case 1: // DEPLOYED
			if x < 85 {
				o = evOp(e, "CONFIGURE")
			} else {
				o = histOp{Env: e, Ev: "START_ACTIVITY", Steps: okDraw}
			}
		case 0:
			o = evOp(e, "DEPLOY")
		default:
			o = evOp(e, "RECOVER")
		}
		in.Ops = append(in.Ops, o)
		// follow the state the way the FSM table does (only to aim the generator)
		cancelled := o.Body == "fail" || (o.Ev == "STOP_ACTIVITY" && o.StopFail)
		switch {
		case o.Ev == "START_ACTIVITY" && cur[e] == 2:
			ok := !o.NegFail && !o.PosFail && !o.LeaveFail && o.Body == "" && len(o.Steps) >= 2
			if ok {
				last := o.Steps[len(o.Steps)-1]
				ok = last.Own && last.Op == "serve"
			}
			if ok {
				cur[e], run[e] = 3, true // may be wrong when the CAS is refused: the next operation is then inappropriate
			}
		case cancelled:
		case o.Ev == "STOP_ACTIVITY" && cur[e] == 3:
			cur[e] = 2
		case o.Ev == "GO_ERROR" && cur[e] <= 3:
			cur[e] = 5
		case o.Ev == "RECOVER" && cur[e] == 5:
			cur[e] = 1
		case o.Ev == "CONFIGURE" && cur[e] == 1:
			cur[e] = 2
		case o.Ev == "RESET" && cur[e] == 2:
			cur[e] = 1
		case o.Ev == "DEPLOY" && cur[e] == 0:
			cur[e] = 1
		}
	}
	_ = run
	return in
}
