// h07: correspondence harness for C07 (run numbers are unique and strictly increasing).
//
// Drives the real apricot/local Service.NewRunNumber -> cfgbackend.ConsulSource.GetNextUInt32
// (constructed through local.NewService("consul://...")) against an in-process fake Consul KV
// server that GATES every request touching the counter, so that a schedule of the Coq model
// (model/RunCounter.v: which caller's pending request is served / fails / is lost, which caller
// dies, foreign writes and deletes) is realised exactly. Also drives START_ACTIVITY of a real
// Environment through the same gated path (hook core/environment/zz_verif_c07.go), the file
// backend branch of NewRunNumber sequentially, and a concurrent stress run of the file backend.
//
// Observed per schedule: the request log at the KV server (caller, GET/PUT, cas index, body,
// consistent flag, outcome), what every caller returned, the final key.
package main

import (
	"encoding/base64"
	"encoding/json"
	"fmt"
	"io"
	"net"
	"net/http"
	"os"
	"path/filepath"
	"sort"
	"strconv"
	"strings"
	"sync"
	"time"

	"github.com/AliceO2Group/Control/apricot/local"
	"github.com/AliceO2Group/Control/core/environment"
	"github.com/sirupsen/logrus"
	"github.com/spf13/viper"

	"verif/harness/internal/gen"
)

// ---------------------------------------------------------------- fake Consul KV

type kvEntry struct {
	val            []byte
	create, modify uint64
}

const (
	modeServe   = 0
	modeFail    = 1
	modeLost    = 2
	modeCrash   = 3
	modeCleanup = 9 // end of case: unblock the caller, not part of the schedule, not logged
)

const noCas = ^uint64(0)

type pending struct {
	lid        int
	method     string
	key        string
	cas        uint64 // noCas when the request has no cas parameter
	consistent bool
	body       []byte
	decide     chan int
}

type logEntry struct {
	Kind       string `json:"kind"` // get put fput fdel
	Caller     int    `json:"caller,omitempty"`
	Consistent bool   `json:"consistent,omitempty"`
	Mode       int    `json:"mode,omitempty"`
	Found      bool   `json:"found,omitempty"`
	Val        string `json:"val,omitempty"`
	Idx        uint64 `json:"idx,omitempty"`
	Cas        uint64 `json:"cas,omitempty"`
	Body       string `json:"body,omitempty"`
	Applied    bool   `json:"applied,omitempty"`
	KeyIdx     int    `json:"key,omitempty"` // first-occurrence index of the key within the case
}

type event struct {
	caller   int
	p        *pending // arrival of a gated request
	finished bool
	res      result
}

type result struct {
	val uint32
	err error
	// environment cases
	state string
	rn    uint32
}

type fake struct {
	mu         sync.Mutex
	kv         map[string]*kvEntry
	index      uint64
	counterKey string
	log        []logEntry
	keys       []string // keys seen in gated requests, in first-occurrence order
	others     int      // ungated requests during the case
	run        *caseRun // nil: no gating
	probeKeys  []string
	addrs      []string
}

type caseRun struct {
	events  chan event
	lid2cid map[int]int
}

func (f *fake) keyIdx(k string) int {
	for i, x := range f.keys {
		if x == k {
			return i
		}
	}
	f.keys = append(f.keys, k)
	return len(f.keys) - 1
}

func (f *fake) put(key string, v []byte) {
	f.index++
	if e, ok := f.kv[key]; ok {
		e.val, e.modify = v, f.index
	} else {
		f.kv[key] = &kvEntry{val: v, create: f.index, modify: f.index}
	}
}

func (f *fake) del(key string) {
	if _, ok := f.kv[key]; ok {
		f.index++
		delete(f.kv, key)
	}
}

type kvJSON struct {
	LockIndex   uint64
	Key         string
	Flags       uint64
	Value       *string
	CreateIndex uint64
	ModifyIndex uint64
}

func entryJSON(k string, e *kvEntry) kvJSON {
	j := kvJSON{Key: k, CreateIndex: e.create, ModifyIndex: e.modify}
	if len(e.val) > 0 {
		s := base64.StdEncoding.EncodeToString(e.val)
		j.Value = &s
	}
	return j
}

func (f *fake) headers(w http.ResponseWriter, idx uint64) {
	w.Header().Set("X-Consul-Index", strconv.FormatUint(idx, 10))
	w.Header().Set("X-Consul-KnownLeader", "true")
	w.Header().Set("X-Consul-LastContact", "0")
	w.Header().Set("Content-Type", "application/json")
}

func (f *fake) handler(lid int) http.HandlerFunc {
	return func(w http.ResponseWriter, r *http.Request) {
		key := strings.TrimPrefix(r.URL.Path, "/v1/kv/")
		q := r.URL.Query()
		body, _ := io.ReadAll(r.Body)
		_, recurse := q["recurse"]
		_, keysOnly := q["keys"]
		_, consistent := q["consistent"]
		cas := noCas
		if c, ok := q["cas"]; ok && len(c) > 0 {
			if v, err := strconv.ParseUint(c[0], 10, 64); err == nil {
				cas = v
			}
		}
		f.mu.Lock()
		run := f.run
		f.probeKeys = append(f.probeKeys, r.Method+" "+key)
		gated := run != nil && !recurse && !keysOnly &&
			(r.Method == http.MethodPut || r.Method == http.MethodDelete || key == f.counterKey)
		if !gated && run != nil {
			f.others++
		}
		f.mu.Unlock()

		mode := modeServe
		cid := lid
		if gated {
			if c, ok := run.lid2cid[lid]; ok {
				cid = c
			}
			p := &pending{lid: lid, method: r.Method, key: key, cas: cas, consistent: consistent,
				body: body, decide: make(chan int, 1)}
			run.events <- event{caller: cid, p: p}
			mode = <-p.decide
		}

		f.mu.Lock()
		defer f.mu.Unlock()
		switch {
		case r.Method == http.MethodGet && (recurse || keysOnly):
			var ks []string
			for k := range f.kv {
				if strings.HasPrefix(k, key) {
					ks = append(ks, k)
				}
			}
			sort.Strings(ks)
			if len(ks) == 0 {
				f.headers(w, f.index)
				w.WriteHeader(404)
				return
			}
			f.headers(w, f.index)
			if keysOnly {
				json.NewEncoder(w).Encode(ks)
				return
			}
			var out []kvJSON
			for _, k := range ks {
				out = append(out, entryJSON(k, f.kv[k]))
			}
			json.NewEncoder(w).Encode(out)
		case r.Method == http.MethodGet:
			le := logEntry{Kind: "get", Caller: cid, Consistent: consistent, Mode: mode}
			if gated {
				le.KeyIdx = f.keyIdx(key)
			}
			if mode != modeServe {
				if gated && mode != modeCleanup {
					f.log = append(f.log, le)
				}
				w.WriteHeader(500)
				io.WriteString(w, "simulated failure")
				return
			}
			e, ok := f.kv[key]
			if ok {
				le.Found, le.Val, le.Idx = true, string(e.val), e.modify
			}
			if gated {
				f.log = append(f.log, le)
			}
			if !ok {
				f.headers(w, f.index)
				w.WriteHeader(404)
				return
			}
			f.headers(w, e.modify)
			json.NewEncoder(w).Encode([]kvJSON{entryJSON(key, e)})
		case r.Method == http.MethodPut:
			le := logEntry{Kind: "put", Caller: cid, Cas: cas, Body: string(body), Mode: mode}
			if gated {
				le.KeyIdx = f.keyIdx(key)
			}
			applied := false
			if mode == modeServe || mode == modeLost {
				e, exists := f.kv[key]
				switch {
				case cas == noCas:
					applied = true
				case cas == 0:
					applied = !exists
				default:
					applied = exists && e.modify == cas
				}
				if applied {
					f.put(key, body)
				}
			}
			le.Applied = applied
			if gated && mode != modeCleanup {
				f.log = append(f.log, le)
			}
			if mode != modeServe {
				w.WriteHeader(500)
				io.WriteString(w, "simulated failure")
				return
			}
			f.headers(w, f.index)
			if applied {
				io.WriteString(w, "true")
			} else {
				io.WriteString(w, "false")
			}
		case r.Method == http.MethodDelete:
			if mode == modeServe || mode == modeLost {
				f.del(key)
				if gated {
					f.log = append(f.log, logEntry{Kind: "fdel", KeyIdx: f.keyIdx(key)})
				}
			}
			if mode != modeServe {
				w.WriteHeader(500)
				return
			}
			f.headers(w, f.index)
			io.WriteString(w, "true")
		default:
			w.WriteHeader(405)
		}
	}
}

const nListeners = 9 // 0..7 callers, 8 the process-wide configuration service of the environments
const envLid = 8

func newFake() *fake {
	f := &fake{kv: map[string]*kvEntry{}}
	for i := 0; i < nListeners; i++ {
		ln, err := net.Listen("tcp", "127.0.0.1:0")
		if err != nil {
			panic(err)
		}
		mux := http.NewServeMux()
		mux.HandleFunc("/v1/kv/", f.handler(i))
		srv := &http.Server{Handler: mux}
		srv.SetKeepAlivesEnabled(false) // one connection per request: no idle pools, no transparent retries
		go srv.Serve(ln)
		f.addrs = append(f.addrs, ln.Addr().String())
	}
	return f
}

func (f *fake) reset(clock uint64) {
	f.mu.Lock()
	defer f.mu.Unlock()
	f.kv = map[string]*kvEntry{}
	f.index = clock
	f.log = nil
	f.keys = []string{f.counterKey}
	f.others = 0
}

// ---------------------------------------------------------------- schedules

type stepJ struct {
	Op string `json:"op"` // serve fail lost crash put del
	I  int    `json:"i,omitempty"`
	V  string `json:"v,omitempty"`
}

func stepTerm(s stepJ) string {
	switch s.Op {
	case "serve":
		return fmt.Sprintf("SServe %d", s.I)
	case "fail":
		return fmt.Sprintf("SFail %d", s.I)
	case "lost":
		return fmt.Sprintf("SLost %d", s.I)
	case "crash":
		return fmt.Sprintf("SCrash %d", s.I)
	case "put":
		return "SPut " + gen.Str(s.V)
	default:
		return "SDel"
	}
}

func stepsTerm(ss []stepJ) string {
	items := make([]string, len(ss))
	for i, s := range ss {
		items[i] = stepTerm(s)
	}
	return gen.List(items)
}

func kvTerm(found bool, val string, idx uint64) string {
	if !found {
		return gen.None()
	}
	return gen.Some(gen.Pair(gen.Str(val), gen.N(idx)))
}

// 2^64 stands for "request carried no cas parameter" (never produced by the model)
func casTerm(c uint64) string {
	if c == noCas {
		return "18446744073709551616"
	}
	return gen.N(c)
}

func logTerm(l []logEntry) string {
	items := make([]string, 0, len(l))
	for _, e := range l {
		// a request for another key than the counter's is shown as caller 1000+key index:
		// the model never produces it
		caller := e.Caller
		if e.KeyIdx != 0 {
			caller = 1000 + e.KeyIdx
		}
		switch e.Kind {
		case "get":
			items = append(items, fmt.Sprintf("LGet %d %s %d %s", caller, gen.Bool(e.Consistent), e.Mode,
				kvTerm(e.Found, e.Val, e.Idx)))
		case "put":
			items = append(items, fmt.Sprintf("LPut %d %s %s %d %s", caller, casTerm(e.Cas), gen.Str(e.Body),
				e.Mode, gen.Bool(e.Applied)))
		case "fput":
			items = append(items, "LFPut "+gen.Str(e.Val))
		case "fdel":
			items = append(items, "LFDel")
		}
	}
	return gen.List(items)
}

type cstat struct {
	started  bool
	pending  *pending
	finished bool
	dead     bool
	res      result
}

type runner struct {
	f     *fake
	run   *caseRun
	st    map[int]*cstat
	start func(cid int) // launches the caller's goroutine; it must send a finished event
}

func (r *runner) stat(i int) *cstat {
	s, ok := r.st[i]
	if !ok {
		s = &cstat{}
		r.st[i] = s
	}
	return s
}

// wait until caller i is quiescent: blocked at the gate or returned
func (r *runner) wait(i int) {
	s := r.stat(i)
	for s.pending == nil && !s.finished {
		select {
		case ev := <-r.run.events:
			t := r.stat(ev.caller)
			if ev.finished {
				t.finished, t.res = true, ev.res
			} else {
				t.pending = ev.p
			}
		case <-time.After(30 * time.Second):
			panic(fmt.Sprintf("caller %d neither reached the KV server nor returned within 30 s", i))
		}
	}
}

func (r *runner) ensure(i int) {
	s := r.stat(i)
	if !s.started {
		s.started = true
		r.start(i)
		r.wait(i)
	}
}

func (r *runner) decide(i int, mode int) {
	r.ensure(i)
	s := r.stat(i)
	if s.finished || s.pending == nil {
		return
	}
	p := s.pending
	s.pending = nil
	if mode == modeCrash {
		s.dead = true
	}
	p.decide <- mode
	r.wait(i)
}

func (r *runner) exec(steps []stepJ, adapt func(k int) stepJ, n int) []stepJ {
	var done []stepJ
	do := func(s stepJ) {
		switch s.Op {
		case "serve":
			r.decide(s.I, modeServe)
		case "fail":
			r.decide(s.I, modeFail)
		case "lost":
			r.decide(s.I, modeLost)
		case "crash":
			r.decide(s.I, modeCrash)
		case "put":
			r.f.mu.Lock()
			r.f.put(r.f.counterKey, []byte(s.V))
			r.f.log = append(r.f.log, logEntry{Kind: "fput", Val: s.V})
			r.f.mu.Unlock()
		case "del":
			r.f.mu.Lock()
			r.f.del(r.f.counterKey)
			r.f.log = append(r.f.log, logEntry{Kind: "fdel"})
			r.f.mu.Unlock()
		}
		done = append(done, s)
	}
	for _, s := range steps {
		do(s)
	}
	if adapt != nil {
		for k := 0; k < n; k++ {
			do(adapt(k))
		}
	}
	return done
}

// unblock everybody at the end of a case (not part of the schedule, not logged)
func (r *runner) cleanup() {
	for {
		progress := false
		for i, s := range r.st {
			if s.started && !s.finished {
				if s.pending == nil {
					r.wait(i)
				}
				if s.pending != nil {
					p := s.pending
					s.pending = nil
					p.decide <- modeCleanup
					r.wait(i)
				}
				progress = true
			}
		}
		if !progress {
			return
		}
	}
}

func (f *fake) current() (bool, string, uint64) {
	f.mu.Lock()
	defer f.mu.Unlock()
	e, ok := f.kv[f.counterKey]
	if !ok {
		return false, "", 0
	}
	return true, string(e.val), e.modify
}

type schedInput struct {
	Clock0 uint64  `json:"clock0"`
	K      int     `json:"k"`
	Steps  []stepJ `json:"steps"`
	State0 int     `json:"state0,omitempty"`
}

type schedObs struct {
	Log     []logEntry `json:"log"`
	Results []string   `json:"results,omitempty"`
	Final   string     `json:"final"`
	Others  int        `json:"other_requests,omitempty"`
	Err     bool       `json:"err,omitempty"`
	State   string     `json:"state,omitempty"`
	RN      uint32     `json:"run_number,omitempty"`
}

// runSched executes prefix steps, then n adaptively generated ones (adapt may be nil).
func runSched(f *fake, clock0 uint64, k int, steps []stepJ, adapt func(r *runner, k int) stepJ, n int, kind string) gen.Case {
	f.reset(clock0)
	run := &caseRun{events: make(chan event, 64), lid2cid: map[int]int{}}
	r := &runner{f: f, run: run, st: map[int]*cstat{}}
	caseNo++
	for c := 0; c < 8; c++ {
		run.lid2cid[(c+caseNo)%8] = c
	}
	r.start = func(cid int) {
		lid := (cid + caseNo) % 8
		// a fresh Service (fresh Consul client) per caller: nothing survives from earlier calls,
		// which is what a restarted core looks like to the counter
		svc, err := local.NewService("consul://" + f.addrs[lid])
		if err != nil {
			panic(err)
		}
		go func() {
			v, e := svc.NewRunNumber()
			run.events <- event{caller: cid, finished: true, res: result{val: v, err: e}}
		}()
	}
	f.mu.Lock()
	f.run = run
	f.mu.Unlock()
	var ad func(int) stepJ
	if adapt != nil {
		ad = func(j int) stepJ { return adapt(r, j) }
	}
	done := r.exec(steps, ad, n)
	// results before cleanup: callers that have not returned are pending
	resItems := make([]string, k)
	resJ := make([]string, k)
	for i := 0; i < k; i++ {
		s := r.stat(i)
		switch {
		case s.dead:
			resItems[i], resJ[i] = "RDead", "dead"
		case !s.finished:
			resItems[i], resJ[i] = "RPending", "pending"
		case s.res.err != nil:
			resItems[i], resJ[i] = "RErr", "error"
		default:
			resItems[i], resJ[i] = fmt.Sprintf("RNum %d", s.res.val), strconv.FormatUint(uint64(s.res.val), 10)
		}
	}
	f.mu.Lock()
	logCopy := append([]logEntry(nil), f.log...)
	others := f.others
	f.mu.Unlock()
	found, val, idx := f.current()
	r.cleanup()
	f.mu.Lock()
	f.run = nil
	f.mu.Unlock()
	term := fmt.Sprintf("CSched %d %d %s %s %s %s", clock0, k, stepsTerm(done), logTerm(logCopy),
		gen.List(resItems), kvTerm(found, val, idx))
	final := "absent"
	if found {
		final = fmt.Sprintf("%q@%d", val, idx)
	}
	return gen.Case{Term: term, Kind: kind, Input: schedInput{Clock0: clock0, K: k, Steps: done},
		Obs: schedObs{Log: logCopy, Results: resJ, Final: final, Others: others}}
}

// ---------------------------------------------------------------- environment level

var caseNo int

var envStates = []string{"STANDBY", "DEPLOYED", "CONFIGURED", "RUNNING", "DONE", "ERROR"}

func stateCode(s string) int {
	for i, x := range envStates {
		if x == s {
			return i
		}
	}
	return 99
}

func runEnv(f *fake, state0 int, clock0 uint64, steps []stepJ, kind string) gen.Case {
	f.reset(clock0)
	// the environment is created before gating starts (it reads defaults and vars)
	env, err := environment.VerifC07NewEnvironment(envStates[state0])
	if err != nil {
		panic(err)
	}
	f.reset(clock0)
	run := &caseRun{events: make(chan event, 64), lid2cid: map[int]int{envLid: 0}}
	r := &runner{f: f, run: run, st: map[int]*cstat{}}
	r.start = func(cid int) {
		go func() {
			e, st, rn := environment.VerifC07TryTransition(env, "START_ACTIVITY")
			run.events <- event{caller: cid, finished: true, res: result{err: e, state: st, rn: rn}}
		}()
	}
	f.mu.Lock()
	f.run = run
	f.mu.Unlock()
	done := r.exec(steps, nil, 0)
	f.mu.Lock()
	logCopy := append([]logEntry(nil), f.log...)
	others := f.others
	f.mu.Unlock()
	// the request must have returned by now; if the schedule left it blocked, unblock it
	r.ensure(0)
	r.cleanup()
	f.mu.Lock()
	f.run = nil
	f.mu.Unlock()
	res := r.stat(0).res
	term := fmt.Sprintf("CEnv %d %d %s %s %s %d %d", state0, clock0, stepsTerm(done), logTerm(logCopy),
		gen.Bool(res.err != nil), stateCode(res.state), res.rn)
	return gen.Case{Term: term, Kind: kind, Input: schedInput{Clock0: clock0, Steps: done, State0: state0},
		Obs: schedObs{Log: logCopy, Err: res.err != nil, State: res.state, RN: res.rn, Others: others}}
}

// ---------------------------------------------------------------- file backend

type fileInput struct {
	File0      *string `json:"file0"`
	K          int     `json:"k,omitempty"`
	Goroutines int     `json:"goroutines,omitempty"`
	Calls      int     `json:"calls,omitempty"`
	Rounds     int     `json:"rounds,omitempty"`
}

var fileSvc *local.Service
var workDir string

func counterFile() string { return filepath.Join(workDir, "runcounter.txt") }

func setFile(c *string) {
	os.Remove(counterFile())
	if c != nil {
		if err := os.WriteFile(counterFile(), []byte(*c), 0o644); err != nil {
			panic(err)
		}
	}
}

func optStr(s *string) string {
	if s == nil {
		return gen.None()
	}
	return gen.Some(gen.Str(*s))
}

func runFileSerial(file0 *string, k int) gen.Case {
	setFile(file0)
	items := make([]string, k)
	obs := make([]string, k)
	for i := 0; i < k; i++ {
		v, err := fileSvc.NewRunNumber()
		if err != nil {
			items[i], obs[i] = gen.None(), "error"
		} else {
			items[i], obs[i] = gen.Some(gen.N(uint64(v))), strconv.FormatUint(uint64(v), 10)
		}
	}
	var final *string
	if b, err := os.ReadFile(counterFile()); err == nil {
		s := string(b)
		final = &s
	}
	term := fmt.Sprintf("CFileSerial %s %d %s %s", optStr(file0), k, gen.List(items), optStr(final))
	return gen.Case{Term: term, Kind: "file-serial", Input: fileInput{File0: file0, K: k},
		Obs: map[string]interface{}{"results": obs, "final": final}}
}

// runFileStress: concurrent NewRunNumber calls of ONE Service on the file backend, repeated (from
// a fresh "0" file) until a number has been returned twice or maxRounds is reached. Since the
// repair of C07-a the read-modify-write runs under the Service's mutex: no duplicate, no failed
// call, and the file ends at goroutines*calls (theorems C07_file_backend_unique / _dense). The
// unrepaired code returns dozens of numbers twice in the first round (monitor code 6).
func runFileStress(goroutines, calls, maxRounds int) gen.Case {
	dups, returned, errs, rounds := 0, 0, 0, 0
	var example uint32
	for rounds < maxRounds && dups == 0 {
		rounds++
		zero := "0"
		setFile(&zero)
		var mu sync.Mutex
		seen := map[uint32]int{}
		var wg sync.WaitGroup
		startCh := make(chan struct{})
		for g := 0; g < goroutines; g++ {
			wg.Add(1)
			go func() {
				defer wg.Done()
				<-startCh
				for c := 0; c < calls; c++ {
					v, err := fileSvc.NewRunNumber()
					mu.Lock()
					if err != nil {
						errs++
					} else {
						seen[v]++
					}
					mu.Unlock()
				}
			}()
		}
		close(startCh)
		wg.Wait()
		for v, n := range seen {
			returned += n
			if n > 1 {
				dups += n - 1
				if example == 0 || v < example {
					example = v
				}
			}
		}
	}
	var final *string
	if b, err := os.ReadFile(counterFile()); err == nil {
		s := string(b)
		final = &s
	}
	term := fmt.Sprintf("CFileStress %d %d %d %d %s", goroutines, calls, dups, errs, optStr(final))
	return gen.Case{Term: term, Kind: "file-stress",
		Input: fileInput{Goroutines: goroutines, Calls: calls, Rounds: maxRounds},
		Obs: map[string]interface{}{"rounds_run": rounds, "returned": returned, "errors": errs,
			"duplicates": dups, "smallest_duplicated": example, "final": final}}
}

// ---------------------------------------------------------------- generators

var junkValues = []string{"", "abc", "12a", "+5", "-1", " 7", "7\n", "7 ", "0x10", "1_000", "1e3", "4294967296",
	"99999999999999999999", "18446744073709551616", "1.0", "٣"}
var numberValues = []string{"0", "1", "5", "41", "007", "0000", "65535", "2147483647", "4294967290",
	"4294967293", "4294967294", "4294967295", "04294967295"}

func parseU32(s string) (uint64, bool) {
	v, err := strconv.ParseUint(s, 10, 32)
	return v, err == nil
}

// adaptive step generator: looks at the real store and the callers' phases so that the
// decision points of the model are hit (race on create, ABA rewrite between read and CAS,
// refused CAS, lost reply, death at every phase, delete, junk, wrap)
func adaptive(rg *gen.Rand, f *fake, k int, hostile bool) func(r *runner, j int) stepJ {
	return func(r *runner, j int) stepJ {
		// callers that can still move
		var live []int
		for i := 0; i < k; i++ {
			s := r.stat(i)
			if !s.finished {
				live = append(live, i)
			}
		}
		found, val, _ := f.current()
		cur, isNum := uint64(0), true
		if found {
			cur, isNum = parseU32(val)
		}
		x := rg.Intn(100)
		if len(live) == 0 || x < 14 {
			// foreign writer
			y := rg.Intn(100)
			switch {
			case y < 30 && isNum: // rewrite of the same value: index changes, value does not
				return stepJ{Op: "put", V: strconv.FormatUint(cur, 10)}
			case y < 55 && isNum:
				d := uint64(rg.Range(1, 3))
				if cur+d > 4294967295 {
					d = 0
				}
				return stepJ{Op: "put", V: strconv.FormatUint(cur+d, 10)}
			case y < 62 && isNum && cur < 4294967290:
				return stepJ{Op: "put", V: "00" + strconv.FormatUint(cur+1, 10)}
			case y < 70 && (cur == 0 || hostile):
				return stepJ{Op: "del"}
			case y < 78 && hostile:
				return stepJ{Op: "put", V: rg.Pick(junkValues)}
			case y < 86 && hostile && isNum && cur > 0:
				return stepJ{Op: "put", V: strconv.FormatUint(cur-1, 10)}
			case y < 92 && hostile:
				return stepJ{Op: "put", V: rg.Pick(numberValues)}
			default:
				if isNum {
					return stepJ{Op: "put", V: strconv.FormatUint(cur, 10)}
				}
				return stepJ{Op: "put", V: "3"}
			}
		}
		i := live[rg.Intn(len(live))]
		switch {
		case x < 20:
			return stepJ{Op: "fail", I: i}
		case x < 27:
			return stepJ{Op: "lost", I: i}
		case x < 34:
			return stepJ{Op: "crash", I: i}
		default:
			return stepJ{Op: "serve", I: i}
		}
	}
}

func sv(i int) stepJ           { return stepJ{Op: "serve", I: i} }
func put(v string) stepJ       { return stepJ{Op: "put", V: v} }
func op(o string, i int) stepJ { return stepJ{Op: o, I: i} }

type corpusCase struct {
	clock0 uint64
	k      int
	steps  []stepJ
}

// hand-written schedules, run first: the witnesses of the Coq theorems and one schedule per
// decision point
func corpus() []corpusCase {
	cs := []corpusCase{
		// regression of C07-b (was the C07_wrap_refuted witness: 4294967295 then 0): the second start must fail
		{1, 2, []stepJ{put("4294967294"), sv(0), sv(0), sv(1), sv(1)}},
		// C07_needs_monotone_foreign_writers witness
		{0, 2, []stepJ{put("5"), sv(0), sv(0), put("5"), sv(1), sv(1)}},
		// race on creation with cas=0
		{0, 2, []stepJ{sv(0), sv(1), sv(0), sv(1)}},
		{3, 3, []stepJ{sv(0), sv(1), sv(2), sv(2), sv(1), sv(0)}},
		// race on an existing key
		{10, 2, []stepJ{put("41"), sv(0), sv(1), sv(1), sv(0)}},
		// ABA: same value rewritten between read and CAS
		{10, 1, []stepJ{put("41"), sv(0), put("41"), sv(0)}},
		// delete between read and CAS; delete then re-create between read and CAS
		{10, 1, []stepJ{put("0"), sv(0), {Op: "del"}, sv(0)}},
		{10, 2, []stepJ{put("0"), sv(0), {Op: "del"}, put("0"), sv(0), sv(1), sv(1)}},
		// reader of an absent key, key created and deleted again, then its cas=0 applies
		{10, 2, []stepJ{sv(0), put("0"), {Op: "del"}, sv(0), sv(1), sv(1)}},
		// failures and deaths at every phase
		{5, 4, []stepJ{put("7"), op("fail", 0), sv(1), op("fail", 1), sv(2), op("lost", 2), sv(3), sv(3)}},
		{5, 4, []stepJ{put("7"), op("crash", 0), sv(1), op("crash", 1), op("lost", 2), sv(3), sv(3), sv(0), sv(1)}},
		// C07_nonvacuous
		{7, 6, []stepJ{sv(0), sv(1), sv(1), sv(0), sv(2), put("1"), sv(2), sv(3), op("lost", 3), sv(4), op("crash", 5), sv(4)}},
		// the boundary itself
		{1, 2, []stepJ{put("4294967295"), sv(0), sv(0), sv(1), sv(1)}},
		{1, 1, []stepJ{put("4294967296"), sv(0), sv(0)}},
		{1, 1, []stepJ{put("04294967295"), sv(0), sv(0)}},
	}
	for _, j := range junkValues {
		cs = append(cs, corpusCase{2, 1, []stepJ{put(j), sv(0), sv(0)}})
	}
	for _, v := range numberValues {
		cs = append(cs, corpusCase{2, 2, []stepJ{put(v), sv(0), sv(0), sv(1), sv(1)}})
	}
	return cs
}

func genEnvSteps(rg *gen.Rand) (int, []stepJ) {
	state0 := 2
	if rg.Chance(1, 5) {
		state0 = []int{0, 1, 3, 5}[rg.Intn(4)]
	}
	var steps []stepJ
	switch rg.Intn(6) {
	case 0: // absent key
	case 1:
		steps = append(steps, put(rg.Pick(junkValues)))
	default:
		steps = append(steps, put(rg.Pick(numberValues)))
	}
	first := []string{"serve", "serve", "serve", "serve", "serve", "serve", "serve", "serve", "fail", "lost", "crash"}[rg.Intn(11)]
	steps = append(steps, op(first, 0))
	// interference between the read and the CAS
	switch rg.Intn(9) {
	case 0:
		steps = append(steps, put("9"))
	case 1:
		steps = append(steps, stepJ{Op: "del"})
	case 2:
		steps = append(steps, put("500000"))
	}
	second := []string{"serve", "serve", "serve", "serve", "serve", "serve", "serve", "fail", "lost", "crash"}[rg.Intn(10)]
	steps = append(steps, op(second, 0))
	return state0, steps
}

// ---------------------------------------------------------------- main

func main() {
	o := gen.ParseFlags()
	logrus.SetOutput(io.Discard)
	logrus.SetLevel(logrus.PanicLevel)
	for _, e := range os.Environ() {
		if strings.HasPrefix(e, "CONSUL_") {
			os.Unsetenv(strings.SplitN(e, "=", 2)[0])
		}
	}
	for _, v := range []string{"HTTP_PROXY", "http_proxy", "HTTPS_PROXY", "https_proxy", "ALL_PROXY", "all_proxy"} {
		os.Unsetenv(v)
	}
	os.Setenv("NO_PROXY", "127.0.0.1,localhost")

	var err error
	workDir, err = os.MkdirTemp(o.Out, "c07work")
	if err != nil {
		panic(err)
	}
	defer os.RemoveAll(workDir)
	viper.Set("coreWorkingDir", workDir)
	yaml := filepath.Join(workDir, "backend.yaml")
	if err := os.WriteFile(yaml, []byte("o2:\n  components: {}\n"), 0o644); err != nil {
		panic(err)
	}
	backendYaml = yaml
	fileSvc, err = local.NewService("file://" + yaml)
	if err != nil {
		panic(err)
	}

	f := newFake()
	viper.Set("config_endpoint", "consul://"+f.addrs[envLid])
	histSetup()

	// which key does the code use? one ungated call tells
	{
		svc, err := local.NewService("consul://" + f.addrs[0])
		if err != nil {
			panic(err)
		}
		svc.NewRunNumber()
		f.mu.Lock()
		for _, k := range f.probeKeys {
			if strings.HasPrefix(k, "GET ") {
				f.counterKey = strings.TrimPrefix(k, "GET ")
				break
			}
		}
		f.mu.Unlock()
	}

	var cases []gen.Case
	if o.Replay != "" {
		ins, kinds, err := gen.LoadReplay(o.Replay)
		if err != nil {
			panic(err)
		}
		for i, raw := range ins {
			switch {
			case strings.HasPrefix(kinds[i], "sched"):
				var in schedInput
				if err := json.Unmarshal(raw, &in); err != nil {
					panic(err)
				}
				cases = append(cases, runSched(f, in.Clock0, in.K, in.Steps, nil, 0, kinds[i]))
			case strings.HasPrefix(kinds[i], "env"):
				var in schedInput
				if err := json.Unmarshal(raw, &in); err != nil {
					panic(err)
				}
				cases = append(cases, runEnv(f, in.State0, in.Clock0, in.Steps, kinds[i]))
			case strings.HasPrefix(kinds[i], "hist"):
				var in histInput
				if err := json.Unmarshal(raw, &in); err != nil {
					panic(err)
				}
				cases = append(cases, runHist(f, in, kinds[i]))
			case strings.HasPrefix(kinds[i], "remote"):
				var in remoteInput
				if err := json.Unmarshal(raw, &in); err != nil {
					panic(err)
				}
				cases = append(cases, runRemote(in, kinds[i]))
			case strings.HasPrefix(kinds[i], "file-lives"):
				var in livesInput
				if err := json.Unmarshal(raw, &in); err != nil {
					panic(err)
				}
				cases = append(cases, runFileLives(in, kinds[i]))
			case kinds[i] == "file-serial":
				var in fileInput
				if err := json.Unmarshal(raw, &in); err != nil {
					panic(err)
				}
				cases = append(cases, runFileSerial(in.File0, in.K))
			case kinds[i] == "file-stress":
				var in fileInput
				if err := json.Unmarshal(raw, &in); err != nil {
					panic(err)
				}
				if in.Rounds < 1 {
					in.Rounds = 1
				}
				cases = append(cases, runFileStress(in.Goroutines, in.Calls, in.Rounds))
			}
		}
	} else {
		rg := gen.NewRand(o.Seed)
		rSched, rHost, rEnv, rFile, rHist, rLives := rg.Fork(), rg.Fork(), rg.Fork(), rg.Fork(), rg.Fork(), rg.Fork()
		rRemote := rg.Fork()
		for _, c := range corpus() {
			cases = append(cases, runSched(f, c.clock0, c.k, c.steps, nil, 0, "sched-corpus"))
		}
		// the file backend across deaths and restarts of the process (a number that is not larger
		// than an earlier one is monitor code 11)
		for _, l := range livesCorpus() {
			cases = append(cases, runFileLives(l, "file-lives-corpus"))
		}
		// the glue: remote client -> gRPC server -> service (a number the service did not return
		// is monitor code 12)
		for _, c := range remoteCorpus() {
			cases = append(cases, runRemote(c, "remote-corpus"))
		}
		// every START attempt draws a fresh number: histories of starts on real environments
		for _, h := range histCorpus() {
			cases = append(cases, runHist(f, h, "hist-corpus"))
		}
		// regression of C07-a: the file-backend race (a duplicate is monitor code 6)
		cases = append(cases, runFileStress(8, 200, 25))
		// regression of C07-b on the file backend: the calls at 2^32-1 must fail and leave the file alone
		for _, c := range []struct {
			file0 string
			k     int
		}{{"4294967294", 3}, {"4294967295", 2}, {"04294967295", 1}, {"4294967293", 4}} {
			f0 := c.file0
			cases = append(cases, runFileSerial(&f0, c.k))
		}
		nSched := o.N * 36 / 100
		nHost := o.N * 8 / 100
		nEnv := o.N * 16 / 100
		nHist := o.N * 14 / 100
		nLives := o.N * 12 / 100
		nRemote := o.N * 4 / 100
		nFile := o.N - nSched - nHost - nEnv - nHist - nLives - nRemote
		for i := 0; i < nSched; i++ {
			k := 1 + rSched.Intn(8)
			if rSched.Chance(1, 3) {
				k = 2 + rSched.Intn(3)
			}
			var prefix []stepJ
			switch rSched.Intn(5) {
			case 0: // absent
			case 1:
				prefix = append(prefix, put(rSched.Pick(numberValues)))
			default:
				prefix = append(prefix, put(strconv.Itoa(rSched.Intn(1000))))
			}
			n := rSched.Range(2*k, 2*k+8)
			if n > 40 {
				n = 40
			}
			cases = append(cases, runSched(f, uint64(rSched.Intn(60)), k, prefix, adaptive(rSched, f, k, false), n, "sched"))
		}
		for i := 0; i < nHost; i++ {
			k := 1 + rHost.Intn(5)
			var prefix []stepJ
			if rHost.Chance(2, 3) {
				prefix = append(prefix, put(rHost.Pick(append(numberValues, junkValues...))))
			}
			n := rHost.Range(2*k, 2*k+10)
			cases = append(cases, runSched(f, uint64(rHost.Intn(60)), k, prefix, adaptive(rHost, f, k, true), n, "sched-hostile"))
		}
		for i := 0; i < nEnv; i++ {
			state0, steps := genEnvSteps(rEnv)
			cases = append(cases, runEnv(f, state0, uint64(rEnv.Intn(60)), steps, "env"))
		}
		for i := 0; i < nHist; i++ {
			cases = append(cases, runHist(f, genHist(rHist), "hist"))
		}
		for i := 0; i < nRemote; i++ {
			cases = append(cases, runRemote(genRemote(rRemote), "remote"))
		}
		for i := 0; i < nLives; i++ {
			cases = append(cases, runFileLives(genLives(rLives), "file-lives"))
		}
		for i := 0; i < nFile; i++ {
			var file0 *string
			switch rFile.Intn(8) {
			case 0: // absent
			case 1:
				s := rFile.Pick(junkValues)
				file0 = &s
			case 2, 3:
				s := rFile.Pick(numberValues)
				file0 = &s
			default:
				s := strconv.Itoa(rFile.Intn(100000))
				file0 = &s
			}
			cases = append(cases, runFileSerial(file0, rFile.Range(1, 6)))
		}
	}
	extra := map[string]any{"counter_key": f.counterKey}
	err = gen.WriteCases(o, "C07", "From Verif Require Import RunCounter.", "c07_case", "report07", cases, extra)
	if err != nil {
		panic(err)
	}
}
