package main

// The remote path: a real loopback gRPC apricot server (apricot/remote.NewServer) on a
// file-backend local.Service, and the real client the core uses for apricot:// URIs
// (apricot/remote.NewService). Operations: a NewRunNumber call through the client, the server is
// stopped (the client then gets codes.Unavailable), a new server + new client on the same
// service, the counter file gets another content (so that the service answers with an error).
// Observed per call: what the client returned and what the service behind the server returned
// meanwhile. Model: remote_client / rrun of model/RunCounter.v; monitor code 12.

import (
	"fmt"
	"net"
	"os"
	"strconv"
	"sync"

	"github.com/AliceO2Group/Control/apricot/local"
	"github.com/AliceO2Group/Control/apricot/remote"
	"github.com/AliceO2Group/Control/configuration"
	"google.golang.org/grpc"

	"verif/harness/internal/gen"
)

type ropJ struct {
	Op      string `json:"op"` // call stop start set
	Content string `json:"content,omitempty"`
}

type remoteInput struct {
	File0 *string `json:"file0"`
	Ops   []ropJ  `json:"ops"`
}

// recordingService is the service behind the server: the real local.Service, with the results of
// NewRunNumber noted down
type recordingService struct {
	configuration.Service
	mu  sync.Mutex
	got []string // Coq terms of option N
	obs []string
}

func (r *recordingService) NewRunNumber() (uint32, error) {
	n, err := r.Service.NewRunNumber()
	r.mu.Lock()
	if err != nil {
		r.got, r.obs = append(r.got, gen.None()), append(r.obs, "error")
	} else {
		r.got, r.obs = append(r.got, gen.Some(gen.N(uint64(n)))), append(r.obs, strconv.FormatUint(uint64(n), 10))
	}
	r.mu.Unlock()
	return n, err
}

func (r *recordingService) take() ([]string, []string) {
	r.mu.Lock()
	defer r.mu.Unlock()
	g, o := r.got, r.obs
	r.got, r.obs = nil, nil
	return g, o
}

func runRemote(in remoteInput, kind string) gen.Case {
	setFile(in.File0)
	base, err := local.NewService("file://" + backendYaml)
	if err != nil {
		panic(err)
	}
	rec := &recordingService{Service: base}
	var srv *grpc.Server
	var cli configuration.Service
	start := func() {
		lis, err := net.Listen("tcp", "127.0.0.1:0")
		if err != nil {
			panic(err)
		}
		srv = remote.NewServer(rec)
		go func(s *grpc.Server) { _ = s.Serve(lis) }(srv)
		cli, err = remote.NewService("apricot://" + lis.Addr().String())
		if err != nil {
			panic(err)
		}
	}
	start()
	ops := make([]string, len(in.Ops))
	obsT := make([]string, len(in.Ops))
	obsJ := make([]map[string]interface{}, len(in.Ops))
	for i, o := range in.Ops {
		client, clientJ := gen.None(), ""
		switch o.Op {
		case "call":
			ops[i] = "RCall"
			n, err := cli.NewRunNumber()
			if err != nil {
				clientJ = "error"
			} else {
				client, clientJ = gen.Some(gen.N(uint64(n))), strconv.FormatUint(uint64(n), 10)
			}
		case "stop":
			ops[i] = "RStop"
			if srv != nil {
				srv.Stop()
				srv = nil
			}
		case "start":
			ops[i] = "RStart"
			if srv != nil {
				srv.Stop()
			}
			start()
		default:
			ops[i] = "RSet " + gen.Str(o.Content)
			if err := os.WriteFile(counterFile(), []byte(o.Content), 0o644); err != nil {
				panic(err)
			}
		}
		got, gotJ := rec.take()
		obsT[i] = gen.Pair(client, gen.List(got))
		obsJ[i] = map[string]interface{}{"client": clientJ, "service": gotJ}
	}
	if srv != nil {
		srv.Stop()
	}
	term := fmt.Sprintf("CRemote %s %s %s", optStr(in.File0), gen.List(ops), gen.List(obsT))
	return gen.Case{Term: term, Kind: kind, Input: in, Obs: obsJ}
}

func rc() ropJ              { return ropJ{Op: "call"} }
func rset(c string) ropJ    { return ropJ{Op: "set", Content: c} }
func rops(o ...ropJ) []ropJ { return o }

// hand-written, run first
func remoteCorpus() []remoteInput {
	stop, start := ropJ{Op: "stop"}, ropJ{Op: "start"}
	return []remoteInput{
		// two starts, apricot goes away while two more starts are tried, comes back
		{nil, rops(rc(), rc(), stop, rc(), rc(), start, rc())},
		// the service answers with an error (unreadable counter, exhausted counter), then works again
		{sp("41"), rops(rc(), rset("x"), rc(), rc(), rset("50"), rc())},
		{sp("4294967294"), rops(rc(), rc(), rc(), stop, rc())},
		{sp(""), rops(rc(), stop, rc(), start, rc())},
	}
}

func genRemote(rg *gen.Rand) remoteInput {
	var in remoteInput
	switch x := rg.Intn(10); {
	case x < 3:
	case x < 8:
		in.File0 = sp(strconv.Itoa(rg.Intn(100000)))
	case x < 9:
		in.File0 = sp(rg.Pick(numberValues))
	default:
		in.File0 = sp(rg.Pick(junkValues))
	}
	up := true
	n := rg.Range(3, 8)
	for i := 0; i < n; i++ {
		x := rg.Intn(100)
		switch {
		case x < 55:
			in.Ops = append(in.Ops, rc())
		case x < 70 && up:
			in.Ops = append(in.Ops, ropJ{Op: "stop"}, rc())
			up = false
		case x < 82 && !up:
			in.Ops = append(in.Ops, ropJ{Op: "start"})
			up = true
		case x < 90:
			in.Ops = append(in.Ops, rset(rg.Pick(junkValues)), rc())
		case x < 95:
			in.Ops = append(in.Ops, rset(strconv.Itoa(200000+rg.Intn(1000)*(i+1))))
		default:
			in.Ops = append(in.Ops, rc())
		}
	}
	return in
}
