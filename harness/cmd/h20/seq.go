// Payload templating beyond {{ name }} and request SEQUENCES on one Service (template cache warm).
//
// The payload of a request must be the entry's content templated with exactly the variables of
// THIS request.  GetAndProcessComponentConfiguration keeps a pongo2 template set (with its cache
// of compiled templates) per component/RUNTYPE/role directory across requests, so anything that
// ends up in that state - a function map, bindings, globals - would make one request's variables
// show up in another request's payload.  A sequence case issues several requests (different
// entries of the same directory, different variable sets, entries rewritten in the backend,
// cache invalidations) on ONE Service and, for every request, also asks a FRESH Service the same
// thing: the two payloads are the observation (Coq: CSeq ... observed cold).
package main

import (
	"fmt"
	"sort"
	"strings"

	"github.com/AliceO2Group/Control/apricot/local"
	"github.com/AliceO2Group/Control/configuration/componentcfg"

	"verif/harness/internal/gen"
)

// expression of the template fragment (Coq: texpr)
type expr struct {
	Lit    *string `json:"lit,omitempty"`
	Var    string  `json:"var,omitempty"`
	Fn     string  `json:"fn,omitempty"` // po | upper | lower | trimspace | trimquotes
	Legacy bool    `json:"legacy,omitempty"`
	Args   []expr  `json:"args,omitempty"`
}

var fnGo = map[string]string{"upper": "ToUpper", "lower": "ToLower", "trimspace": "TrimSpace", "trimquotes": "TrimQuotes"}
var fnCoq = map[string]string{"upper": "FUpper", "lower": "FLower", "trimspace": "FTrimSpace", "trimquotes": "FTrimQuotes"}

func (e expr) src() string {
	switch {
	case e.Lit != nil:
		return "\"" + *e.Lit + "\""
	case e.Fn == "po":
		name := "util.PrefixedOverride"
		if e.Legacy {
			name = "PrefixedOverride"
		}
		return name + "(" + e.Args[0].src() + ", " + e.Args[1].src() + ")"
	case e.Fn != "":
		name := "strings." + fnGo[e.Fn]
		if e.Legacy {
			name = fnGo[e.Fn]
		}
		return name + "(" + e.Args[0].src() + ")"
	default:
		return e.Var
	}
}

func (e expr) term() string {
	switch {
	case e.Lit != nil:
		return "(ELit " + gen.Str(*e.Lit) + ")"
	case e.Fn == "po":
		return fmt.Sprintf("(EPO %s %s %s)", gen.Bool(e.Legacy), e.Args[0].term(), e.Args[1].term())
	case e.Fn != "":
		return fmt.Sprintf("(EFun %s %s %s)", gen.Bool(e.Legacy), fnCoq[e.Fn], e.Args[0].term())
	default:
		return "(EVar " + gen.Str(e.Var) + ")"
	}
}

func (e expr) valid() bool {
	switch {
	case e.Lit != nil:
		return true
	case e.Fn == "po":
		return len(e.Args) == 2 && e.Args[0].valid() && e.Args[1].valid()
	case e.Fn != "":
		return fnGo[e.Fn] != "" && len(e.Args) == 1 && e.Args[0].valid()
	default:
		return e.Var != ""
	}
}

func tplSource(tpl []piece) string {
	var src strings.Builder
	for _, p := range tpl {
		switch {
		case p.Exp != nil:
			src.WriteString("{{ " + p.Exp.src() + " }}")
		case p.Var != "":
			src.WriteString("{{ " + p.Var + " }}")
		default:
			src.WriteString(p.Lit)
		}
	}
	return src.String()
}

func tplTerm(tpl []piece) string {
	var items []string
	for _, p := range tpl {
		switch {
		case p.Exp != nil:
			items = append(items, "TExp "+p.Exp.term())
		case p.Var != "":
			items = append(items, "TVar "+gen.Str(p.Var))
		default:
			items = append(items, "TLit "+gen.Str(p.Lit))
		}
	}
	return gen.List(items)
}

// one operation of a sequence
type seqOp struct {
	Req  string            `json:"req,omitempty"` // component/RUNTYPE/role/entry
	Vars map[string]string `json:"vars,omitempty"`
	Inv  bool              `json:"inv,omitempty"`
	Put  string            `json:"put,omitempty"`
	Tpl  []piece           `json:"tpl,omitempty"`
	// the entry is written through the Service (ImportComponentConfiguration) instead of
	// behind its back (file rewritten)
	Import bool `json:"import,omitempty"`
}

type seqIn struct {
	Backend map[string][]piece `json:"backend"`
	Ops     []seqOp            `json:"ops"`
}

func optTerm(s *string) string {
	if s == nil {
		return gen.None()
	}
	return gen.Some(gen.Str(*s))
}

func request(svc *local.Service, path string, vars map[string]string) *string {
	q, err := componentcfg.NewQuery(path)
	if err != nil || q == nil {
		return nil
	}
	// the Service must not keep or change the caller's map either: hand over a copy
	cp := make(map[string]string, len(vars))
	for k, v := range vars {
		cp[k] = v
	}
	out, err := svc.GetAndProcessComponentConfiguration(q, cp)
	if err != nil {
		return nil
	}
	return &out
}

// the unprocessed lookup of the same path
func exists(svc *local.Service, path string) bool {
	q, err := componentcfg.NewQuery(path)
	if err != nil || q == nil {
		return false
	}
	_, err = svc.GetComponentConfiguration(q)
	return err == nil
}

func caseSeq(dir string, in seqIn) gen.Case {
	content := map[string]string{}
	var paths []string
	for p, t := range in.Backend {
		content[p] = tplSource(t)
		paths = append(paths, p)
	}
	sort.Strings(paths)
	write := func() string {
		ex := map[string]string{"zz-decoy/ANY/any/decoy": "decoy"}
		for p, s := range content {
			ex[p] = s
		}
		f, err := writeBackend(dir, ex)
		if err != nil {
			panic(err)
		}
		return f
	}
	f := write()
	warm, err := local.NewService("file://" + f)
	if err != nil {
		panic(err)
	}
	var opTerms, obsTerms, coldTerms, rawTerms []string
	type obsJ struct {
		Warm *string `json:"warm"`
		Cold *string `json:"cold"`
		Raw  bool    `json:"unprocessed_ok"`
	}
	var obs []obsJ
	for _, op := range in.Ops {
		switch {
		case op.Inv:
			warm.InvalidateComponentTemplateCache()
			opTerms = append(opTerms, "OInv")
			obsTerms = append(obsTerms, gen.None())
			coldTerms = append(coldTerms, gen.None())
			rawTerms = append(rawTerms, gen.Bool(false))
			obs = append(obs, obsJ{})
		case op.Put != "":
			content[op.Put] = tplSource(op.Tpl)
			if op.Import {
				if q, err := componentcfg.NewQuery(op.Put); err == nil && q != nil {
					warm.ImportComponentConfiguration(q, content[op.Put], false)
				}
			}
			// (also after an import: the file backend re-serialises the whole tree and does not
			// keep every string byte for byte - leading newlines; the entries are what we say)
			write()
			opTerms = append(opTerms, fmt.Sprintf("OPut %s %s", gen.Str(op.Put), tplTerm(op.Tpl)))
			obsTerms = append(obsTerms, gen.None())
			coldTerms = append(coldTerms, gen.None())
			rawTerms = append(rawTerms, gen.Bool(false))
			obs = append(obs, obsJ{})
		default:
			ex := exists(warm, op.Req)
			w := request(warm, op.Req, op.Vars)
			fresh, err := local.NewService("file://" + f)
			if err != nil {
				panic(err)
			}
			c := request(fresh, op.Req, op.Vars)
			opTerms = append(opTerms, fmt.Sprintf("OReq %s %s", gen.Str(op.Req), gen.KVs(op.Vars)))
			obsTerms = append(obsTerms, optTerm(w))
			coldTerms = append(coldTerms, optTerm(c))
			rawTerms = append(rawTerms, gen.Bool(ex))
			obs = append(obs, obsJ{w, c, ex})
		}
	}
	var be []string
	for _, p := range paths {
		be = append(be, gen.Pair(gen.Str(p), tplTerm(in.Backend[p])))
	}
	return gen.Case{Term: fmt.Sprintf("CSeq %s %s %s %s %s", gen.List(be), gen.List(opTerms), gen.List(obsTerms), gen.List(coldTerms), gen.List(rawTerms)),
		Kind: "seq", Input: in, Obs: obs}
}

// ---------- generators ----------

var seqDets = []string{"its", "tpc", "mft"}
var seqBase = []string{"dpl_workflow", "a", "b"}
var seqVals = []string{"v", "default-wf", "TPC", "1", "a b", "x-y_z", "<tag>", "it's", "a&b", "none", " ", "", "\"q\"", "  pad ", "MiXed"}
var seqLits = []string{"text ", "{\"k\": \"", "\"}\n", "a=b;", " ", "x", "\n", "[1,2]", "key: "}

func lit(s string) expr { return expr{Lit: &s} }

func genExpr(r *gen.Rand, depth int) expr {
	k := r.Intn(10)
	if depth <= 0 && k >= 5 {
		k = r.Intn(5)
	}
	switch {
	case k < 2: // a literal that names a variable, a detector, or nothing
		switch r.Intn(4) {
		case 0:
			return lit(r.Pick(seqDets))
		case 1:
			return lit(r.Pick([]string{"zzz", "a ", " a", "A", "dpl workflow"}))
		default:
			return lit(r.Pick(seqBase))
		}
	case k < 5:
		return expr{Var: r.Pick([]string{"detector", "detector", "a", "b", "k", "K", "missing", "var_1"})}
	case k < 8:
		return expr{Fn: "po", Legacy: r.Chance(1, 3), Args: []expr{genExpr(r, depth-1), genExpr(r, depth-1)}}
	default:
		return expr{Fn: r.Pick([]string{"upper", "lower", "trimspace", "trimquotes"}), Legacy: r.Chance(1, 3),
			Args: []expr{genExpr(r, depth-1)}}
	}
}

// an override call as it is written in real entries: PrefixedOverride("<name>", detector)
func genOverride(r *gen.Rand) expr {
	name := lit(r.Pick(seqBase))
	pfx := expr{Var: "detector"}
	switch r.Intn(6) {
	case 0:
		pfx = lit(r.Pick(seqDets))
	case 1:
		name = expr{Var: "k"}
	case 2:
		name = expr{Fn: "lower", Args: []expr{{Var: "K"}}}
	}
	return expr{Fn: "po", Legacy: r.Chance(1, 3), Args: []expr{name, pfx}}
}

func genTpl(r *gen.Rand, override bool) []piece {
	var tpl []piece
	n := r.Range(1, 4)
	at := r.Intn(n)
	for i := 0; i < n; i++ {
		switch {
		case override && i == at:
			e := genOverride(r)
			tpl = append(tpl, piece{Exp: &e})
		case r.Chance(1, 3):
			tpl = append(tpl, piece{Lit: r.Pick(seqLits)})
		case r.Chance(1, 2):
			tpl = append(tpl, piece{Var: r.Pick([]string{"a", "b", "var_1", "detector", "missing"})})
		default:
			e := genExpr(r, 2)
			tpl = append(tpl, piece{Exp: &e})
		}
	}
	return tpl
}

// variable sets as the core hands them over: a detector, defaults and per-detector overrides
func genVarSet(r *gen.Rand, det string) map[string]string {
	vars := map[string]string{}
	if r.Chance(9, 10) {
		vars["detector"] = det
	}
	for _, n := range seqBase {
		if r.Chance(3, 4) {
			k := n
			if r.Chance(1, 10) {
				k = " " + n + " " // reaches the context trimmed, the function map as supplied
			}
			vars[k] = r.Pick(seqVals)
		}
		for _, d := range seqDets {
			if r.Chance(1, 2) {
				vars[d+"_"+n] = r.Pick(seqVals)
			}
		}
	}
	if r.Chance(1, 2) {
		vars["k"] = r.Pick(seqBase)
	}
	if r.Chance(1, 2) {
		vars["K"] = strings.ToUpper(r.Pick(seqBase))
	}
	if r.Chance(1, 3) {
		vars["var_1"] = r.Pick(seqVals)
	}
	if r.Chance(1, 25) {
		vars[r.Pick([]string{"x-1", "a.b", "k 2"})] = "v" // not an identifier: the request is refused
	}
	return vars
}

func genSeq(r *gen.Rand) seqIn {
	in := seqIn{Backend: map[string][]piece{}}
	dirs := []string{r.Pick([]string{"qc", "readout", "stfb"}) + "/" + r.Pick([]string{"ANY", "PHYSICS"}) + "/" + r.Pick([]string{"any", "role1"})}
	if r.Chance(1, 3) {
		dirs = append(dirs, "other/ANY/any")
	}
	if r.Chance(1, 6) {
		dirs = append(dirs, dirs[0]+"/sub") // entry keys with a slash: directory = everything up to the last one
	}
	var paths []string
	for _, d := range dirs {
		names := []string{"plain", "override", "ovr2", "mixed"}
		for i := r.Range(2, 4); i > 0; i-- {
			p := d + "/" + names[i-1]
			in.Backend[p] = genTpl(r, names[i-1] != "plain" && r.Chance(4, 5))
			paths = append(paths, p)
		}
	}
	sort.Strings(paths)
	nsets := r.Range(2, 3)
	var sets []map[string]string
	perm := r.Perm(len(seqDets))
	for i := 0; i < nsets; i++ {
		sets = append(sets, genVarSet(r, seqDets[perm[i]]))
	}
	for n := r.Range(3, 9); n > 0; n-- {
		k := r.Intn(20)
		switch {
		case k == 0:
			in.Ops = append(in.Ops, seqOp{Inv: true})
		case k < 3:
			p := r.Pick(paths)
			if r.Chance(1, 5) {
				p = dirs[0] + "/new"
			}
			in.Ops = append(in.Ops, seqOp{Put: p, Tpl: genTpl(r, r.Chance(2, 3)), Import: r.Chance(1, 3)})
		default:
			p := r.Pick(paths)
			if r.Chance(1, 15) {
				p = dirs[0] + r.Pick([]string{"/new", "/nosuch"})
			}
			in.Ops = append(in.Ops, seqOp{Req: p, Vars: sets[r.Intn(len(sets))]})
		}
	}
	// aimed: an entry asked for while it is missing (perhaps with a fallback candidate present),
	// created later - through the Service or behind its back - and asked for again, with or
	// without an invalidation in between
	if r.Chance(1, 3) {
		late := dirs[0] + "/" + r.Pick([]string{"late", "new", "plain2"})
		if _, there := in.Backend[late]; !there {
			pos := func() int { return r.Intn(len(in.Ops) + 1) }
			ins := func(i int, op seqOp) {
				in.Ops = append(in.Ops[:i], append([]seqOp{op}, in.Ops[i:]...)...)
			}
			i := pos()
			ins(i, seqOp{Req: late, Vars: sets[r.Intn(len(sets))]})
			j := i + 1 + r.Intn(len(in.Ops)-i)
			ins(j, seqOp{Put: late, Tpl: genTpl(r, r.Chance(1, 2)), Import: r.Chance(1, 2)})
			k := j + 1 + r.Intn(len(in.Ops)-j)
			ins(k, seqOp{Req: late, Vars: sets[r.Intn(len(sets))]})
			if r.Chance(1, 2) {
				ins(len(in.Ops), seqOp{Req: late, Vars: sets[r.Intn(len(sets))]})
			}
		}
	}
	return in
}

func validSeq(in seqIn) bool {
	okTpl := func(t []piece) bool {
		for _, p := range t {
			if p.Exp != nil && !p.Exp.valid() {
				return false
			}
		}
		return true
	}
	for _, t := range in.Backend {
		if !okTpl(t) {
			return false
		}
	}
	for _, op := range in.Ops {
		if !okTpl(op.Tpl) {
			return false
		}
	}
	return true
}
