// The BACKENDS the resolution relies on.  resolveComponentQuery decides which candidate exists
// through Source.Exists; production uses cfgbackend.ConsulSource, the other cases of this harness
// the file (YAML) backend.  A "backends" case puts the same entries into both - the real
// ConsulSource talks to an in-process stand-in for Consul's KV HTTP API (GET key, ?keys, ?recurse
// with Consul's PREFIX semantics, PUT with ?cas, DELETE) - resolves the same query on both, fetches
// the resolved entry (unprocessed and processed) and asks both backends whether a list of probe
// paths exists: the candidates, proper string prefixes of entry names (readout-stfb-flp1 vs
// readout-stfb-flp10), folders.  Coq: CBackends.
package main

import (
	"encoding/base64"
	"encoding/json"
	"fmt"
	"io"
	"net"
	"net/http"
	"sort"
	"strconv"
	"strings"
	"sync"

	"github.com/AliceO2Group/Control/apricot/local"
	apricotpb "github.com/AliceO2Group/Control/apricot/protos"
	"github.com/AliceO2Group/Control/configuration/cfgbackend"
	"github.com/AliceO2Group/Control/configuration/componentcfg"

	"verif/harness/internal/gen"
)

type fakeConsul struct {
	mu    sync.Mutex
	kv    map[string]string
	mod   map[string]uint64
	index uint64
	addr  string
}

func newFakeConsul() *fakeConsul {
	c := &fakeConsul{kv: map[string]string{}, mod: map[string]uint64{}, index: 10}
	ln, err := net.Listen("tcp", "127.0.0.1:0")
	if err != nil {
		panic(err)
	}
	c.addr = ln.Addr().String()
	mux := http.NewServeMux()
	mux.HandleFunc("/v1/kv/", c.handle)
	go (&http.Server{Handler: mux}).Serve(ln)
	return c
}

func (c *fakeConsul) replace(content map[string]string) {
	c.mu.Lock()
	defer c.mu.Unlock()
	c.kv = map[string]string{}
	c.mod = map[string]uint64{}
	for k, v := range content {
		c.index++
		c.kv[k] = v
		c.mod[k] = c.index
	}
}

func (c *fakeConsul) handle(w http.ResponseWriter, r *http.Request) {
	key := strings.TrimPrefix(r.URL.Path, "/v1/kv/")
	q := r.URL.Query()
	c.mu.Lock()
	defer c.mu.Unlock()
	w.Header().Set("X-Consul-Index", strconv.FormatUint(c.index, 10))
	w.Header().Set("X-Consul-KnownLeader", "true")
	w.Header().Set("X-Consul-LastContact", "0")
	switch r.Method {
	case http.MethodGet:
		_, recurse := q["recurse"]
		_, keysOnly := q["keys"]
		var ks []string
		if recurse || keysOnly { // Consul lists by string PREFIX
			for k := range c.kv {
				if strings.HasPrefix(k, key) {
					ks = append(ks, k)
				}
			}
			sort.Strings(ks)
		} else if _, ok := c.kv[key]; ok {
			ks = []string{key}
		}
		if len(ks) == 0 {
			w.WriteHeader(http.StatusNotFound)
			return
		}
		w.Header().Set("Content-Type", "application/json")
		if keysOnly {
			if sep := q.Get("separator"); sep != "" {
				seen := map[string]bool{}
				var out []string
				for _, k := range ks {
					rest := strings.TrimPrefix(k, key)
					if i := strings.Index(rest, sep); i >= 0 {
						k = key + rest[:i+len(sep)]
					}
					if !seen[k] {
						seen[k] = true
						out = append(out, k)
					}
				}
				ks = out
			}
			json.NewEncoder(w).Encode(ks)
			return
		}
		type kvJSON struct {
			LockIndex   uint64
			Key         string
			Flags       uint64
			Value       string
			CreateIndex uint64
			ModifyIndex uint64
		}
		var out []kvJSON
		for _, k := range ks {
			out = append(out, kvJSON{Key: k, Value: base64.StdEncoding.EncodeToString([]byte(c.kv[k])),
				CreateIndex: c.mod[k], ModifyIndex: c.mod[k]})
		}
		json.NewEncoder(w).Encode(out)
	case http.MethodPut:
		body, _ := io.ReadAll(r.Body)
		ok := true
		if casS, has := q["cas"]; has {
			cas, _ := strconv.ParseUint(casS[0], 10, 64)
			m, exists := c.mod[key]
			ok = (cas == 0 && !exists) || (exists && m == cas)
		}
		if ok {
			c.index++
			c.kv[key] = string(body)
			c.mod[key] = c.index
		}
		w.Write([]byte(strconv.FormatBool(ok)))
	case http.MethodDelete:
		if _, rec := q["recurse"]; rec {
			for k := range c.kv {
				if strings.HasPrefix(k, key) {
					delete(c.kv, k)
					delete(c.mod, k)
				}
			}
		} else {
			delete(c.kv, key)
			delete(c.mod, key)
		}
		c.index++
		w.Write([]byte("true"))
	default:
		w.WriteHeader(http.StatusMethodNotAllowed)
	}
}

var theConsul *fakeConsul

type backendsIn struct {
	Q        qj       `json:"q"`
	Existing []string `json:"existing"` // component/RUNTYPE/role/entry
	Probes   []string `json:"probes"`   // paths (same form) whose existence both backends are asked for
}

type backendObs struct {
	Resolved *qj   `json:"resolved"`
	GetOK    bool  `json:"get_ok"`
	Exists   []int `json:"exists"` // per probe: 1 yes, 0 no, 2 error
}

func runBackend(svc *local.Service, src cfgbackend.Source, in backendsIn, content map[string]string) (backendObs, string) {
	cq := &componentcfg.Query{Component: in.Q.Comp, RunType: apricotpb.RunType(in.Q.RT), RoleName: in.Q.Role, EntryKey: in.Q.Entry}
	var o backendObs
	o.GetOK = true
	term := gen.None()
	res, err := svc.ResolveComponentQuery(cq)
	if err == nil && res != nil {
		j := fromQuery(res)
		o.Resolved = &j
		term = gen.Some(qTerm(j))
		want, there := content[res.Raw()]
		payload, gerr := svc.GetComponentConfiguration(res)
		processed, perr := svc.GetAndProcessComponentConfiguration(res, map[string]string{"detector": "TPC"})
		o.GetOK = there && gerr == nil && payload == want && perr == nil && processed == want
	}
	for _, p := range in.Probes {
		ex, err := src.Exists(componentcfg.ConfigComponentsPath + p)
		switch {
		case err != nil:
			o.Exists = append(o.Exists, 2)
		case ex:
			o.Exists = append(o.Exists, 1)
		default:
			o.Exists = append(o.Exists, 0)
		}
	}
	return o, term
}

func caseBackends(dir string, in backendsIn) gen.Case {
	if theConsul == nil {
		theConsul = newFakeConsul()
	}
	sort.Strings(in.Existing)
	content := map[string]string{}
	for _, p := range in.Existing {
		content[p] = "payload-of-" + p
	}
	// file backend (a decoy so that it is never empty)
	fileContent := map[string]string{"zz-decoy/ANY/any/decoy": "decoy"}
	consulContent := map[string]string{componentcfg.ConfigComponentsPath + "zz-decoy/ANY/any/decoy": "decoy"}
	for p, v := range content {
		fileContent[p] = v
		consulContent[componentcfg.ConfigComponentsPath+p] = v
	}
	f, err := writeBackend(dir, fileContent)
	if err != nil {
		panic(err)
	}
	theConsul.replace(consulContent)
	fsvc, err := local.NewService("file://" + f)
	if err != nil {
		panic(err)
	}
	fsrc, err := cfgbackend.NewSource("file://" + f)
	if err != nil {
		panic(err)
	}
	csvc, err := local.NewService("consul://" + theConsul.addr)
	if err != nil {
		panic(err)
	}
	csrc, err := cfgbackend.NewSource("consul://" + theConsul.addr)
	if err != nil {
		panic(err)
	}
	fo, fterm := runBackend(fsvc, fsrc, in, content)
	co, cterm := runBackend(csvc, csrc, in, content)
	var probes []string
	for i, p := range in.Probes {
		probes = append(probes, fmt.Sprintf("(%s, (%d, %d))", gen.Str(p), fo.Exists[i], co.Exists[i]))
	}
	return gen.Case{
		Term: fmt.Sprintf("CBackends %s %s %s %s %s %s %s", qTerm(in.Q), gen.StrList(in.Existing), fterm, cterm,
			gen.Bool(fo.GetOK), gen.Bool(co.GetOK), gen.List(probes)),
		Kind: "backends", Input: in, Obs: map[string]interface{}{"file": fo, "consul": co}}
}

// ---------- generator: names that are string prefixes of sibling names and of folders ----------

var prefixFamilies = [][]string{
	{"readout-stfb-flp1", "readout-stfb-flp10", "readout-stfb-flp", "readout-stfb-flp1/sub"},
	{"e", "e1", "e10", "e1/x"},
	{"cfg", "cfg2", "cfg/part", "cf"},
	{"t", "t/u", "t/u/v", "tu"},
	{"a/b", "a/b/c", "a/bc", "a"},
}

func genBackends(r *gen.Rand, i int) backendsIn {
	fam := prefixFamilies[r.Intn(len(prefixFamilies))]
	comp := r.Pick([]string{"readout", "qc", "stfb"})
	role := r.Pick([]string{"role1", "role10", "any", "flp"})
	rtn := rtNums[r.Intn(len(rtNums))]
	if r.Chance(1, 4) {
		rtn = int32(apricotpb.RunType_ANY)
	}
	rtName := apricotpb.RunType_name[rtn]
	entry := fam[r.Intn(len(fam))]
	q := qj{comp, rtn, role, entry}
	levels := []string{
		comp + "/" + rtName + "/" + role + "/",
		comp + "/ANY/" + role + "/",
		comp + "/" + rtName + "/any/",
		comp + "/ANY/any/",
	}
	seen := map[string]bool{}
	var existing, probes []string
	add := func(l *[]string, p string) {
		if !seen[p] {
			seen[p] = true
			*l = append(*l, p)
		}
	}
	// which of the four candidates exist: all 16 patterns in rotation
	pat := i % 16
	for b := 0; b < 4; b++ {
		if pat&(1<<b) != 0 {
			add(&existing, levels[b]+entry)
		}
	}
	// at every level, perhaps, the other members of the family: names the queried name is a prefix
	// of (siblings, folders) and names that are prefixes of it
	for b := 0; b < 4; b++ {
		for _, other := range fam {
			if other != entry && r.Chance(1, 3) {
				add(&existing, levels[b]+other)
			}
		}
	}
	// a sibling role / component / run type whose NAME extends the queried one
	if r.Chance(1, 3) {
		add(&existing, comp+"/"+rtName+"/"+role+"0/"+entry)
	}
	if r.Chance(1, 4) {
		add(&existing, comp+"x/"+rtName+"/"+role+"/"+entry)
	}
	// an entry may not be a folder at the same time (a tree node is either): drop entries that are
	// folders of other entries
	sort.Strings(existing)
	var kept []string
	for _, p := range existing {
		folder := false
		for _, o := range existing {
			if strings.HasPrefix(o, p+"/") {
				folder = true
			}
		}
		if !folder {
			kept = append(kept, p)
		}
	}
	existing = kept
	seenP := map[string]bool{}
	addP := func(p string) {
		if !seenP[p] {
			seenP[p] = true
			probes = append(probes, p)
		}
	}
	for b := 0; b < 4; b++ {
		addP(levels[b] + entry)
		addP(levels[b] + fam[r.Intn(len(fam))])
	}
	for _, p := range existing {
		if r.Chance(1, 3) && len(p) > 1 {
			addP(p[:len(p)-1]) // proper prefix of an entry's path
		}
		if i := strings.LastIndex(p, "/"); r.Chance(1, 4) && i > 0 {
			addP(p[:i]) // its folder
		}
	}
	var okProbes []string
	for _, p := range probes {
		if strings.HasSuffix(p, "/") || strings.Contains(p, "//") {
			continue
		}
		okProbes = append(okProbes, p)
	}
	return backendsIn{Q: q, Existing: existing, Probes: okProbes}
}
