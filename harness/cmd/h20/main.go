// h20: correspondence harness for C20 (configuration queries).
// Runs componentcfg.NewQuery / Raw / NewQueryParameters and apricot/local Service
// (file backend) on generated inputs and writes (input, observed) pairs as Coq terms.
package main

import (
	"encoding/json"
	"fmt"
	"os"
	"path/filepath"
	"sort"
	"strings"

	apricotpb "github.com/AliceO2Group/Control/apricot/protos"
	"github.com/AliceO2Group/Control/apricot/local"
	"github.com/AliceO2Group/Control/configuration/componentcfg"

	"verif/harness/internal/gen"
)

type qj struct {
	Comp  string `json:"comp"`
	RT    int32  `json:"rt"`
	Role  string `json:"role"`
	Entry string `json:"entry"`
}

func qTerm(q qj) string {
	return fmt.Sprintf("(mkQuery %s %d %s %s)", gen.Str(q.Comp), q.RT, gen.Str(q.Role), gen.Str(q.Entry))
}

func fromQuery(q *componentcfg.Query) qj {
	return qj{q.Component, int32(q.RunType), q.RoleName, q.EntryKey}
}

type input struct {
	S        string            `json:"s,omitempty"`
	Q        *qj               `json:"q,omitempty"`
	Existing []string          `json:"existing,omitempty"`
	Vars     map[string]string `json:"vars,omitempty"`
	Tpl      []piece           `json:"tpl,omitempty"`
}

type piece struct {
	Lit string `json:"lit,omitempty"`
	Var string `json:"var,omitempty"`
	Exp *expr  `json:"exp,omitempty"`
}

const compChars = "abcxyzABCXYZ019-_"
const rtChars = "ABCXYZ019-_"
const entryChars = "abcxyzABCXYZ019-_/"
const valChars = "abcxyzABCXYZ019-_,\"[]"

var rtNames []string
var rtNums []int32

func word(r *gen.Rand, alphabet string, lo, hi int) string {
	n := r.Range(lo, hi)
	b := make([]byte, n)
	for i := range b {
		b[i] = alphabet[r.Intn(len(alphabet))]
	}
	return string(b)
}

var smallNames = []string{"qc", "readout", "a", "b", "stfb", "x-1", "Q_c", "any", "ANY"}

func genComp(r *gen.Rand) string {
	if r.Chance(1, 2) {
		return r.Pick(smallNames)
	}
	return word(r, compChars, 1, 6)
}

func genEntry(r *gen.Rand) string {
	if r.Chance(1, 2) {
		return r.Pick([]string{"entry", "cfg", "e1", "t/u", "a/b/c", "x_y-z", "/", "//x", "e/"})
	}
	return word(r, entryChars, 1, 8)
}

func genRT(r *gen.Rand) string {
	switch r.Intn(10) {
	case 0:
		return word(r, rtChars, 1, 6) // syntactically fine, most often unknown
	case 1:
		return strings.ToLower(r.Pick(rtNames))
	default:
		return r.Pick(rtNames)
	}
}

func validQueryString(r *gen.Rand) string {
	return genComp(r) + "/" + genRT(r) + "/" + genComp(r) + "/" + genEntry(r)
}

var blanks = []string{" ", "\t", "\n", "\r", "\v", "\f", "  ", " \t "}

func mutate(r *gen.Rand, s string) string {
	switch r.Intn(12) {
	case 0: // surround by blanks
		return r.Pick(blanks) + s + r.Pick(blanks)
	case 1:
		return s + r.Pick(blanks)
	case 2: // inner blank
		if len(s) > 0 {
			i := r.Intn(len(s))
			return s[:i] + r.Pick(blanks) + s[i:]
		}
	case 3: // drop a char
		if len(s) > 0 {
			i := r.Intn(len(s))
			return s[:i] + s[i+1:]
		}
	case 4: // double a slash
		return strings.Replace(s, "/", "//", 1)
	case 5: // trailing slash
		return s + "/"
	case 6: // leading slash
		return "/" + s
	case 7: // odd character
		i := r.Intn(len(s) + 1)
		return s[:i] + r.Pick([]string{".", "+", "%", "=", "&", "\x00", "\x7f", "\x1f", "~", "é"[:1], ":", "@"}) + s[i:]
	case 8: // drop a segment
		parts := strings.Split(s, "/")
		if len(parts) > 1 {
			i := r.Intn(len(parts))
			parts = append(parts[:i], parts[i+1:]...)
			return strings.Join(parts, "/")
		}
	case 9:
		return ""
	case 10: // newline inside / at end
		return s + "\n" + r.Pick([]string{"", "x"})
	case 11: // change case of one letter
		b := []byte(s)
		for try := 0; try < 4; try++ {
			i := r.Intn(len(b) + 1)
			if i < len(b) && b[i] >= 'A' && b[i] <= 'Z' {
				b[i] += 32
				break
			}
		}
		return string(b)
	}
	return s
}

func isASCII(s string) bool {
	for i := 0; i < len(s); i++ {
		if s[i] >= 0x80 {
			return false
		}
	}
	return true
}

func caseParse(s string) gen.Case {
	q, err := componentcfg.NewQuery(s)
	obs := gen.None()
	var o interface{}
	if err == nil && q != nil {
		j := fromQuery(q)
		obs = gen.Some(qTerm(j))
		o = j
	}
	return gen.Case{Term: fmt.Sprintf("CParse %s %s", gen.Str(s), obs), Kind: "parse",
		Input: input{S: s}, Obs: o}
}

func casePrint(q qj) gen.Case {
	cq := &componentcfg.Query{Component: q.Comp, RunType: apricotpb.RunType(q.RT), RoleName: q.Role, EntryKey: q.Entry}
	raw := cq.Raw()
	if cq.Path() != raw || cq.AbsoluteRaw() != componentcfg.ConfigComponentsPath+raw {
		raw = "\x00Path/Raw/AbsoluteRaw disagree"
	}
	return gen.Case{Term: fmt.Sprintf("CPrint %s %s", qTerm(q), gen.Str(raw)), Kind: "print",
		Input: input{Q: &q}, Obs: raw}
}

func caseParams(s string) gen.Case {
	p, err := componentcfg.NewQueryParameters(s)
	obs := gen.None()
	var o interface{}
	if err == nil && p != nil {
		obs = gen.Some(gen.Pair(gen.Bool(p.ProcessTemplates), gen.KVs(p.VarStack)))
		o = map[string]interface{}{"process": p.ProcessTemplates, "vars": p.VarStack}
	}
	return gen.Case{Term: fmt.Sprintf("CParams %s %s", gen.Str(s), obs), Kind: "params",
		Input: input{S: s}, Obs: o}
}

// ---------- file backend ----------

func yq(s string) string { b, _ := json.Marshal(s); return string(b) } // JSON string = valid YAML scalar

func writeBackend(dir string, existing map[string]string) (string, error) {
	// nested map from paths
	type node map[string]interface{}
	root := node{}
	for p, payload := range existing {
		parts := strings.Split(p, "/")
		cur := root
		for i, k := range parts {
			if i == len(parts)-1 {
				cur[k] = payload
			} else {
				nx, ok := cur[k].(node)
				if !ok {
					nx = node{}
					cur[k] = nx
				}
				cur = nx
			}
		}
	}
	var b strings.Builder
	var emit func(n node, ind int)
	emit = func(n node, ind int) {
		keys := make([]string, 0, len(n))
		for k := range n {
			keys = append(keys, k)
		}
		sort.Strings(keys)
		for _, k := range keys {
			b.WriteString(strings.Repeat("  ", ind))
			switch v := n[k].(type) {
			case node:
				b.WriteString(yq(k) + ":\n")
				emit(v, ind+1)
			case string:
				b.WriteString(yq(k) + ": " + yq(v) + "\n")
			}
		}
	}
	top := node{"o2": node{"components": root}}
	emit(top, 0)
	f := filepath.Join(dir, "backend.yaml")
	return f, os.WriteFile(f, []byte(b.String()), 0o644)
}

func caseResolve(dir string, q qj, existing []string) gen.Case {
	ex := map[string]string{}
	for _, p := range existing {
		ex[p] = "payload-of-" + p
	}
	// a decoy so the backend is never empty
	ex["zz-decoy/ANY/any/decoy"] = "decoy"
	f, err := writeBackend(dir, ex)
	if err != nil {
		panic(err)
	}
	svc, err := local.NewService("file://" + f)
	if err != nil {
		panic(err)
	}
	cq := &componentcfg.Query{Component: q.Comp, RunType: apricotpb.RunType(q.RT), RoleName: q.Role, EntryKey: q.Entry}
	res, err := svc.ResolveComponentQuery(cq)
	obs := gen.None()
	getOK := true
	var o interface{}
	if err == nil && res != nil {
		j := fromQuery(res)
		obs = gen.Some(qTerm(j))
		payload, gerr := svc.GetComponentConfiguration(res)
		getOK = gerr == nil && payload == ex[res.Raw()]
		o = map[string]interface{}{"resolved": j, "get_ok": getOK}
	}
	sort.Strings(existing)
	return gen.Case{Term: fmt.Sprintf("CResolve %s %s %s %s", qTerm(q), gen.StrList(existing), obs, gen.Bool(getOK)),
		Kind: "resolve", Input: input{Q: &q, Existing: existing}, Obs: o}
}

func caseRender(dir string, vars map[string]string, tpl []piece) gen.Case {
	ex := map[string]string{"comp/ANY/any/tpl": tplSource(tpl)}
	f, err := writeBackend(dir, ex)
	if err != nil {
		panic(err)
	}
	svc, err := local.NewService("file://" + f)
	if err != nil {
		panic(err)
	}
	cq := &componentcfg.Query{Component: "comp", RunType: apricotpb.RunType_ANY, RoleName: "any", EntryKey: "tpl"}
	out, err := svc.GetAndProcessComponentConfiguration(cq, vars)
	obs := gen.None()
	var o interface{}
	if err == nil {
		obs = gen.Some(gen.Str(out))
		o = out
	} else {
		o = "error: " + err.Error()
	}
	return gen.Case{Term: fmt.Sprintf("CRender %s %s %s", gen.KVs(vars), tplTerm(tpl), obs),
		Kind: "render", Input: input{Vars: vars, Tpl: tpl}, Obs: o}
}

func genParams(r *gen.Rand) string {
	n := r.Range(1, 4)
	var items []string
	keys := []string{"a", "b", "key", "process", "K-1", "x_y"}
	for i := 0; i < n; i++ {
		k := r.Pick(keys)
		if r.Chance(1, 4) {
			k = word(r, compChars, 1, 4)
		}
		v := word(r, valChars, 1, 6)
		if k == "process" && r.Chance(3, 4) {
			v = r.Pick([]string{"true", "false", "1", "0", "T", "F", "TRUE", "False", "t", "f", "yes", "tRue"})
		}
		items = append(items, k+"="+v)
	}
	s := strings.Join(items, "&")
	switch r.Intn(8) {
	case 0:
		s = mutate(r, s)
	case 1:
		s = s + "&"
	case 2:
		s = strings.Replace(s, "=", "==", 1)
	case 3:
		s = r.Pick(blanks) + s + r.Pick(blanks)
	}
	return s
}

func main() {
	o := gen.ParseFlags()
	for n, s := range apricotpb.RunType_name {
		rtNames = append(rtNames, s)
		rtNums = append(rtNums, n)
	}
	sort.Strings(rtNames)
	sort.Slice(rtNums, func(i, j int) bool { return rtNums[i] < rtNums[j] })
	tmp, err := os.MkdirTemp(o.Out, "backend")
	if err != nil {
		panic(err)
	}
	defer os.RemoveAll(tmp)

	var cases []gen.Case
	addReplay := func(path string) {
		ins, kinds, err := gen.LoadReplay(path)
		if err != nil {
			panic(err)
		}
		for i, raw := range ins {
			var in input
			if err := json.Unmarshal(raw, &in); err != nil {
				panic(err)
			}
			switch kinds[i] {
			case "parse":
				cases = append(cases, caseParse(in.S))
			case "print":
				cases = append(cases, casePrint(*in.Q))
			case "params":
				cases = append(cases, caseParams(in.S))
			case "resolve":
				cases = append(cases, caseResolve(tmp, *in.Q, in.Existing))
			case "render":
				cases = append(cases, caseRender(tmp, in.Vars, in.Tpl))
			case "backends":
				var bi backendsIn
				if err := json.Unmarshal(raw, &bi); err != nil {
					panic(err)
				}
				cases = append(cases, caseBackends(tmp, bi))
			case "seq":
				var sq seqIn
				if err := json.Unmarshal(raw, &sq); err != nil {
					panic(err)
				}
				if validSeq(sq) {
					cases = append(cases, caseSeq(tmp, sq))
				}
			}
		}
	}
	if o.Replay != "" {
		addReplay(o.Replay)
	} else {
		// corpus first: request sequences on one Service (a cached template set must not carry
		// anything of an earlier request into a later payload)
		files, _ := filepath.Glob("corpus/C20/*.json")
		sort.Strings(files)
		for _, f := range files {
			addReplay(f)
		}
		r := gen.NewRand(o.Seed)
		rParse, rPrint, rParams, rRes, rRender := r.Fork(), r.Fork(), r.Fork(), r.Fork(), r.Fork()
		rSeq := r.Fork()
		rBack := r.Fork()
		nParse := o.N * 30 / 100
		nPrint := o.N * 10 / 100
		nParams := o.N * 15 / 100
		nRender := o.N * 10 / 100
		nSeq := o.N * 10 / 100
		nBack := o.N * 10 / 100
		nRes := o.N - nParse - nPrint - nParams - nRender - nSeq - nBack
		for i := 0; i < nBack; i++ {
			cases = append(cases, caseBackends(tmp, genBackends(rBack, i)))
		}
		for i := 0; i < nSeq; i++ {
			cases = append(cases, caseSeq(tmp, genSeq(rSeq)))
		}
		for i := 0; i < nParse; i++ {
			s := validQueryString(rParse)
			if rParse.Chance(1, 2) {
				s = mutate(rParse, s)
				if rParse.Chance(1, 4) {
					s = mutate(rParse, s)
				}
			}
			if !isASCII(s) {
				continue
			}
			cases = append(cases, caseParse(s))
		}
		for i := 0; i < nPrint; i++ {
			rt := rtNums[rPrint.Intn(len(rtNums))]
			if rPrint.Chance(1, 10) {
				rt = int32(rPrint.Range(19, 400)) // mostly unknown numbers
			}
			cases = append(cases, casePrint(qj{genComp(rPrint), rt, genComp(rPrint), genEntry(rPrint)}))
		}
		for i := 0; i < nParams; i++ {
			s := genParams(rParams)
			if !isASCII(s) {
				continue
			}
			cases = append(cases, caseParams(s))
		}
		// resolve: all 16 existence patterns in rotation, random names
		for i := 0; i < nRes; i++ {
			pat := i % 16
			comp, role := genComp(rRes), genComp(rRes)
			entry := r.Pick([]string{"entry", "cfg", "e1", "t/u", "a/b/c", "x_y-z"})
			rtn := rtNums[rRes.Intn(len(rtNums))]
			// boundary queries: the fallback values themselves as run type / role name
			if rRes.Chance(1, 4) {
				rtn = int32(apricotpb.RunType_ANY)
			}
			if rRes.Chance(1, 4) {
				role = componentcfg.FALLBACK_ROLENAME
			}
			q := qj{comp, rtn, role, entry}
			rtName := apricotpb.RunType_name[rtn]
			cands := []string{
				comp + "/" + rtName + "/" + role + "/" + entry,
				comp + "/ANY/" + role + "/" + entry,
				comp + "/" + rtName + "/any/" + entry,
				comp + "/ANY/any/" + entry,
			}
			seen := map[string]bool{}
			var existing []string
			for b := 0; b < 4; b++ {
				if pat&(1<<b) != 0 && !seen[cands[b]] {
					seen[cands[b]] = true
					existing = append(existing, cands[b])
				}
			}
			// distractors: other components/roles/entries that must not be picked
			for d := rRes.Intn(3); d > 0; d-- {
				p := genComp(rRes) + "x/" + rRes.Pick(rtNames) + "/" + genComp(rRes) + "/other"
				if !seen[p] {
					seen[p] = true
					existing = append(existing, p)
				}
			}
			cases = append(cases, caseResolve(tmp, q, existing))
		}
		lits := []string{"text ", "{\"k\": \"", "\"}\n", "a=b;", " ", "x", "\n", "[1,2]", "key: "}
		names := []string{"a", "b", "var_1", "detector", "missing"}
		vals := []string{"", "v", "TPC", "1", "a b", "x-y_z", "[\"a\",\"b\"]", "<tag>", "it's", "a&b"}
		for i := 0; i < nRender; i++ {
			vars := map[string]string{}
			for _, n := range names[:4] {
				if rRender.Chance(2, 3) {
					k := n
					if rRender.Chance(1, 6) {
						k = " " + n + " "
					}
					vars[k] = rRender.Pick(vals)
				}
			}
			var tpl []piece
			for k := rRender.Range(1, 6); k > 0; k-- {
				if rRender.Chance(1, 2) {
					tpl = append(tpl, piece{Var: rRender.Pick(names)})
				} else if rRender.Chance(1, 3) {
					e := genExpr(rRender, 2)
					tpl = append(tpl, piece{Exp: &e})
				} else {
					tpl = append(tpl, piece{Lit: rRender.Pick(lits)})
				}
			}
			cases = append(cases, caseRender(tmp, vars, tpl))
		}
	}
	err = gen.WriteCases(o, "C20", "From Verif Require Import CfgQuery.", "c20_case", "report20", cases, nil)
	if err != nil {
		panic(err)
	}
}
