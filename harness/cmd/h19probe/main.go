package main

import (
	"fmt"
	"os"
	"runtime"
	"strings"
	"sync/atomic"
	"time"

	"github.com/AliceO2Group/Control/common/event"
	pb "github.com/AliceO2Group/Control/common/protos"
	"github.com/segmentio/kafka-go"
)

func spin(n int) {
	x := 0
	for i := 0; i < n; i++ {
		x += i
	}
	_ = x
}

func diagnose() (writerWaiting, batcherAlive bool) {
	buf := make([]byte, 1<<20)
	n := runtime.Stack(buf, true)
	for _, g := range strings.Split(string(buf[:n]), "\n\n") {
		if strings.Contains(g, "writingLoop") && strings.Contains(g, "sync.(*Cond).Wait") {
			writerWaiting = true
		}
		if strings.Contains(g, "batchingLoop") {
			batcherAlive = true
		}
	}
	return
}

func main() {
	mode := os.Args[1]
	trials := 200000
	hangs := 0
	t0 := time.Now()
	var seed uint64 = 12345
	rnd := func(n int) int {
		seed += 0x9e3779b97f4a7c15
		z := seed
		z = (z ^ (z >> 30)) * 0xbf58476d1ce4e5b9
		z = (z ^ (z >> 27)) * 0x94d049bb133111eb
		z ^= z >> 31
		return int(z % uint64(n))
	}
	for i := 0; i < trials && time.Since(t0) < 60*time.Second; i++ {
		gate := make(chan struct{})
		arrived := make(chan struct{}, 16)
		var nb int32
		w := event.VerifC19NewWriter("t", func(ms []kafka.Message) {
			atomic.AddInt32(&nb, 1)
			arrived <- struct{}{}
			<-gate
		})
		closed := make(chan struct{})
		switch mode {
		case "newclose":
			spin(rnd(200))
			go func() { w.Close(); close(closed) }()
		case "release":
			w.WriteEvent(&pb.Ev_MetaEvent_CoreStart{FrameworkId: "x"})
			<-arrived
			d1, d2 := rnd(3000), rnd(3000)
			go func() { spin(d1); w.Close(); close(closed) }()
			spin(d2)
			gate <- struct{}{}
		}
		select {
		case <-closed:
		case <-time.After(3 * time.Second):
			ww, ba := diagnose()
			c, b, d := event.VerifC19Probe(w)
			hangs++
			fmt.Printf("trial %d: Close did not return in 3s; writerWaitingOnCond=%v batcherAlive=%v chan=%d buf=%d done=%d batches=%d\n", i, ww, ba, c, b, d, nb)
			if hangs >= 3 {
				fmt.Printf("hangs=%d after %d trials in %v\n", hangs, i+1, time.Since(t0))
				return
			}
		}
		if i%20000 == 0 {
			fmt.Printf("trial %d t=%v\n", i, time.Since(t0))
		}
	}
	fmt.Printf("hangs=%d in %v\n", hangs, time.Since(t0))
}
