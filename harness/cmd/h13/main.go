// temporary probe
package main

import (
	"fmt"
	"os"
	"path/filepath"
	"sort"
	"time"

	"github.com/AliceO2Group/Control/common/utils/uid"
	"github.com/AliceO2Group/Control/core/integration"
	"verif/harness/internal/simcore"
	"verif/harness/internal/vplugin"
)

const wf = `name: w1
defaults:
  deploy_timeout: 5s
bind:
  - name: rootin
    type: pull
roles:
  - name: "grp"
    roles:
      - name: "t1"
        bind:
          - name: ctl
            type: sub
            addressing: ipc
            transport: shmem
            global: galias
          - name: in1
            type: pull
            transport: zeromq
          - name: exp
            type: pull
            target: "tcp://*:5555"
            global: gexp
          - name: bad
            type: pull
            target: "nonsense"
        task:
          load: CLS1
      - name: "t2"
        connect:
          - name: out1
            type: push
            target: "w1.grp.t1:in1"
          - name: out2
            type: push
            target: "::galias"
            transport: nanomsg
          - name: out3
            type: push
            target: "tcp://somewhere:1234"
          - name: out4
            type: push
            target: "::gexp"
          - name: out5
            type: push
            target: "w1.grp.t1:bad"
          - name: out6
            type: push
            target: "w1.grp.t1:cin"
        task:
          load: CLS2
  - name: "pre"
    call:
      func: verif.Probe("pre")
      trigger: before_CONFIGURE
      timeout: 5s
      critical: false
`
const cls1 = `name: CLS1
control:
  mode: direct
wants:
  cpu: 0.1
  memory: 64
bind:
  - name: cin
    type: pull
    addressing: tcp
  - name: in1
    type: pull
    transport: shmem
command:
  env: []
  shell: true
  value: "sleep 1000"
`
const cls2 = `name: CLS2
control:
  mode: fairmq
wants:
  cpu: 0.1
  memory: 64
connect:
  - name: out1
    type: push
    target: "tcp://classlevel:1"
command:
  env: []
  shell: true
  value: "sleep 1000"
`

func main() {
	rec := vplugin.NewRecorder()
	s, err := simcore.New(simcore.Options{
		Plugins:     map[string]integration.NewFunc{"verif": vplugin.New(rec)},
		WorkDir:     "/verif/build/sim/c13probe",
		Workflows:   map[string]string{},
		TaskClasses: map[string]string{},
		Agents: []simcore.Agent{
			{Hostname: "host1", CPUs: 4, Mem: 4096, Ports: [][2]uint64{{9000, 9100}, {30000, 30100}}, Attributes: map[string]string{"machine_id": "host1"}},
			{Hostname: "host2", CPUs: 4, Mem: 4096, Ports: [][2]uint64{{9000, 9100}, {30000, 30100}}, Attributes: map[string]string{"machine_id": "host2"}},
		},
		Quiet: os.Getenv("SIM_VERBOSE") == "",
	})
	if err != nil {
		fmt.Println("ERR", err)
		os.Exit(1)
	}
	rec.OnStart = func(id string, vars map[string]string) {
		for _, ti := range s.Taskman.VerifRoster() {
			t := s.Taskman.GetTask(ti.TaskId)
			fmt.Println("PROBE", ti.RolePath, ti.Hostname, t.GetLocalBindMap()); fmt.Printf("  OUT %+v\n  IN %+v\n", t.GetParent().CollectOutboundChannels(), t.GetParent().CollectInboundChannels())
		}
	}
	os.WriteFile(filepath.Join(s.RepoDir, "workflows", "w1.yaml"), []byte(wf), 0o644)
	os.WriteFile(filepath.Join(s.RepoDir, "tasks", "CLS1.yaml"), []byte(cls1), 0o644)
	os.WriteFile(filepath.Join(s.RepoDir, "tasks", "CLS2.yaml"), []byte(cls2), 0o644)
	t0 := time.Now()
	id, err := s.Envman.CreateEnvironment("w1", map[string]string{}, false, uid.New(), false)
	fmt.Println("create:", id, err, time.Since(t0))
	for _, c := range s.CallsSnapshot() {
		if c.Type == "ACCEPT" {
			for _, ti := range c.Tasks {
				fmt.Println("ACCEPT", ti.Name, ti.AgentID.Value, ti.Resources)
			}
		}
		if c.Msg != nil && c.Msg.Event == "CONFIGURE" {
			keys := []string{}
			for k := range c.Msg.Arguments {
				keys = append(keys, k)
			}
			sort.Strings(keys)
			fmt.Println("CONFIGURE", c.Msg.TaskIds, string(c.Msg.Raw))
		}
	}
}
