// h13: correspondence harness for C13 (outbound channels connect to where the matching inbound
// channel was bound).
//
// Pure layer: core/task/channel called directly on generated declarations
// (Inbound.ToFMQMap, Outbound.ToFMQMap, MergeInbound, MergeOutbound, endpoint operations).
// End-to-end layer: generated workflows (bind/connect blocks at role and task-template level,
// TCP/IPC addressing, transports, global aliases, tasks on the same / different hosts) are
// created through Envman.CreateEnvironment (DEPLOY + CONFIGURE) on the in-process core of
// internal/simcore.  Observed: each task's local bind map and host (snapshot taken by a
// verification-plugin probe at before_CONFIGURE), the chans.<name>.0.address/method/transport
// entries of the CONFIGURE command each simulated executor receives, the ports requested in
// ACCEPT, and whether environment creation failed.
package main

import (
	"bufio"
	"bytes"
	"context"
	"encoding/json"
	"flag"
	"fmt"
	"io"
	"os"
	"os/exec"
	"path/filepath"
	"regexp"
	"runtime/pprof"
	"sort"
	"strings"
	"sync"
	"time"

	"github.com/AliceO2Group/Control/common/utils/uid"
	"github.com/AliceO2Group/Control/core/integration"
	pb "github.com/AliceO2Group/Control/core/protos"
	"github.com/AliceO2Group/Control/core/task/channel"

	"github.com/sirupsen/logrus"
	"github.com/spf13/viper"

	"verif/harness/internal/gen"
	"verif/harness/internal/simcore"
	"verif/harness/internal/vplugin"
)

// ---------------------------------------------------------------- declarations

type inJ struct {
	Name   string `json:"name"`
	Tr     string `json:"tr,omitempty"`     // as written; "" = omitted (default)
	Target string `json:"target,omitempty"` // "" = automatic
	Global string `json:"global,omitempty"`
	Addr   string `json:"addr,omitempty"` // "", "tcp", "ipc"
}

type outJ struct {
	Name   string `json:"name"`
	Tr     string `json:"tr,omitempty"`
	Target string `json:"target"`
}

type epJ struct {
	Ipc  bool   `json:"ipc,omitempty"`
	Host string `json:"host,omitempty"`
	Port uint64 `json:"port,omitempty"`
	Path string `json:"path,omitempty"`
	Tr   string `json:"tr"`
}

type kvEp struct {
	K  string `json:"k"`
	Ep epJ    `json:"ep"`
}

func trOf(s string) string {
	if s == "" {
		return "default"
	}
	return s
}

func inTerm(c inJ) string {
	return fmt.Sprintf("(mkIn %s %s %s %s %s)", gen.Str(c.Name), gen.Str(trOf(c.Tr)), gen.Str(c.Target),
		gen.Str(c.Global), gen.Bool(c.Addr == "ipc"))
}

func outTerm(c outJ) string {
	return fmt.Sprintf("(mkOut %s %s %s)", gen.Str(c.Name), gen.Str(trOf(c.Tr)), gen.Str(c.Target))
}

func insTerm(l []inJ) string {
	items := make([]string, len(l))
	for i, c := range l {
		items[i] = inTerm(c)
	}
	return gen.List(items)
}

func outsTerm(l []outJ) string {
	items := make([]string, len(l))
	for i, c := range l {
		items[i] = outTerm(c)
	}
	return gen.List(items)
}

func epTerm(e epJ) string {
	if e.Ipc {
		return fmt.Sprintf("(Ipc %s %s)", gen.Str(e.Path), gen.Str(e.Tr))
	}
	return fmt.Sprintf("(Tcp %s %d %s)", gen.Str(e.Host), e.Port, gen.Str(e.Tr))
}

func bmTerm(l []kvEp) string {
	items := make([]string, len(l))
	for i, kv := range l {
		items[i] = gen.Pair(gen.Str(kv.K), epTerm(kv.Ep))
	}
	return gen.List(items)
}

func goIn(c inJ) channel.Inbound {
	af := channel.TCP
	if c.Addr == "ipc" {
		af = channel.IPC
	}
	return channel.Inbound{Channel: channel.Channel{Name: c.Name, Type: channel.PULL, SndBufSize: 1000, RcvBufSize: 1000,
		RateLogging: "0", Transport: channel.TransportType(trOf(c.Tr)), Target: c.Target}, Global: c.Global, Addressing: af}
}

func goOut(c outJ) channel.Outbound {
	return channel.Outbound{Channel: channel.Channel{Name: c.Name, Type: channel.PUSH, SndBufSize: 1000, RcvBufSize: 1000,
		RateLogging: "0", Transport: channel.TransportType(trOf(c.Tr)), Target: c.Target}}
}

func goEp(e epJ) channel.Endpoint {
	if e.Ipc {
		return channel.IpcEndpoint{Path: e.Path, Transport: channel.TransportType(e.Tr)}
	}
	return channel.TcpEndpoint{Host: e.Host, Port: e.Port, Transport: channel.TransportType(e.Tr)}
}

func fromEp(e channel.Endpoint) epJ {
	switch v := e.(type) {
	case channel.TcpEndpoint:
		return epJ{Host: v.Host, Port: v.Port, Tr: string(v.Transport)}
	case channel.IpcEndpoint:
		return epJ{Ipc: true, Path: v.Path, Tr: string(v.Transport)}
	}
	return epJ{Tr: "?unknown endpoint type"}
}

func goBm(l []kvEp) channel.BindMap {
	m := channel.BindMap{}
	for _, kv := range l {
		m[kv.K] = goEp(kv.Ep)
	}
	return m
}

type cpJ struct {
	Address   string `json:"address"`
	Method    string `json:"method"`
	Transport string `json:"transport"`
}

func cpTerm(c cpJ) string {
	return fmt.Sprintf("(%s, %s, %s)", gen.Str(c.Address), gen.Str(c.Method), gen.Str(c.Transport))
}

var chanKey = regexp.MustCompile(`^chans\.(.+)\.0\.address$`)

// chanProps projects a property map onto name -> (address, method, transport)
func chanProps(pm map[string]string) map[string]cpJ {
	out := map[string]cpJ{}
	for k, v := range pm {
		if m := chanKey.FindStringSubmatch(k); m != nil {
			n := m[1]
			out[n] = cpJ{Address: v, Method: pm["chans."+n+".0.method"], Transport: pm["chans."+n+".0.transport"]}
		}
	}
	return out
}

func propsTerm(m map[string]cpJ) string {
	names := make([]string, 0, len(m))
	for n := range m {
		names = append(names, n)
	}
	sort.Strings(names)
	items := make([]string, len(names))
	for i, n := range names {
		items[i] = gen.Pair(gen.Str(n), cpTerm(m[n]))
	}
	return gen.List(items)
}

// ---------------------------------------------------------------- pure layer

type pureInput struct {
	In    *inJ   `json:"in,omitempty"`
	Out   *outJ  `json:"out,omitempty"`
	Bm    []kvEp `json:"bm,omitempty"`
	HpIn  []inJ  `json:"hp_in,omitempty"`
	LpIn  []inJ  `json:"lp_in,omitempty"`
	HpOut []outJ `json:"hp_out,omitempty"`
	LpOut []outJ `json:"lp_out,omitempty"`
	Ep    *epJ   `json:"ep,omitempty"`
	Host  string `json:"host,omitempty"`
	Ep2   *epJ   `json:"ep2,omitempty"`
}

func caseInFmq(c inJ, bm []kvEp) gen.Case {
	ib := goIn(c)
	pm, err := ib.ToFMQMap(goBm(bm))
	obs := gen.None()
	var o interface{} = "error"
	if err == nil {
		cp, ok := chanProps(pm)[c.Name]
		if !ok {
			cp = cpJ{Address: "\x00missing"}
		}
		obs = gen.Some(cpTerm(cp))
		o = cp
	}
	return gen.Case{Term: fmt.Sprintf("CInFmq %s %s %s", inTerm(c), bmTerm(bm), obs), Kind: "in_fmq",
		Input: pureInput{In: &c, Bm: bm}, Obs: o}
}

func caseOutFmq(c outJ, bm []kvEp) gen.Case {
	ob := goOut(c)
	pm, err := ob.ToFMQMap(goBm(bm))
	obs := gen.None()
	var o interface{} = "error"
	if err == nil && len(pm) > 0 {
		cp, ok := chanProps(pm)[c.Name]
		if !ok {
			cp = cpJ{Address: "\x00missing"}
		}
		obs = gen.Some(cpTerm(cp))
		o = cp
	} else if err == nil {
		// no error and no properties: the caller would silently configure nothing
		obs = gen.Some(cpTerm(cpJ{Address: "\x00empty-without-error"}))
		o = "empty map without error"
	}
	return gen.Case{Term: fmt.Sprintf("COutFmq %s %s %s", outTerm(c), bmTerm(bm), obs), Kind: "out_fmq",
		Input: pureInput{Out: &c, Bm: bm}, Obs: o}
}

func fromGoIn(c channel.Inbound) inJ {
	a := "tcp"
	if c.Addressing == channel.IPC {
		a = "ipc"
	}
	return inJ{Name: c.Name, Tr: string(c.Transport), Target: c.Target, Global: c.Global, Addr: a}
}

func caseMergeIn(hp, lp []inJ) gen.Case {
	g := func(l []inJ) []channel.Inbound {
		out := make([]channel.Inbound, len(l))
		for i, c := range l {
			out[i] = goIn(c)
		}
		return out
	}
	res := channel.MergeInbound(g(hp), g(lp))
	obs := make([]inJ, len(res))
	for i, c := range res {
		obs[i] = fromGoIn(c)
	}
	return gen.Case{Term: fmt.Sprintf("CMergeIn %s %s %s", insTerm(hp), insTerm(lp), insTerm(obs)), Kind: "merge_in",
		Input: pureInput{HpIn: hp, LpIn: lp}, Obs: obs}
}

func caseMergeOut(hp, lp []outJ) gen.Case {
	g := func(l []outJ) []channel.Outbound {
		out := make([]channel.Outbound, len(l))
		for i, c := range l {
			out[i] = goOut(c)
		}
		return out
	}
	res := channel.MergeOutbound(g(hp), g(lp))
	obs := make([]outJ, len(res))
	for i, c := range res {
		obs[i] = outJ{Name: c.Name, Tr: string(c.Transport), Target: c.Target}
	}
	return gen.Case{Term: fmt.Sprintf("CMergeOut %s %s %s", outsTerm(hp), outsTerm(lp), outsTerm(obs)), Kind: "merge_out",
		Input: pureInput{HpOut: hp, LpOut: lp}, Obs: obs}
}

func caseEndpoint(e epJ, host string, f epJ) gen.Case {
	ge, gf := goEp(e), goEp(f)
	addr := ge.GetAddress()
	tg := fromEp(ge.ToTargetEndpoint(host))
	bd := fromEp(ge.ToBoundEndpoint())
	eq := channel.EndpointEquals(ge, gf)
	if ge.GetTransport() != channel.TransportType(e.Tr) {
		addr = "\x00transport changed"
	}
	return gen.Case{Term: fmt.Sprintf("CEndpoint %s %s %s (%s, %s, %s, %s)", epTerm(e), gen.Str(host), epTerm(f),
		gen.Str(addr), epTerm(tg), epTerm(bd), gen.Bool(eq)), Kind: "endpoint",
		Input: pureInput{Ep: &e, Host: host, Ep2: &f},
		Obs:   map[string]interface{}{"address": addr, "target": tg, "bound": bd, "equals": eq}}
}

var (
	inNames    = []string{"in0", "in1", "in2", "ctl"}
	outNames   = []string{"out0", "out1", "out2", "mon"}
	transports = []string{"", "default", "zeromq", "nanomsg", "shmem"}
	globals    = []string{"ga", "gb", "gc"}
	hostPool   = []string{"h1", "h2", "h3"}
	badTargets = []string{"nonsense", "udp://x:1", "host:123", "tcp:/x:1", "TCP://x:1", "ipc:/p", "::"}
)

func genExplicit(r *gen.Rand) string {
	switch r.Intn(5) {
	case 0:
		return fmt.Sprintf("tcp://*:%d", r.Range(5000, 5999))
	case 1:
		return fmt.Sprintf("tcp://%s:%d", r.Pick([]string{"somewhere", "h1", "10.0.0.7", "localhost"}), r.Range(1, 65535))
	case 2:
		return "ipc://" + r.Pick([]string{"/tmp/pipe-1", "@abstract", "x", ""})
	case 3:
		return "tcp://"
	default:
		return "ipc:///tmp/readout-pipe-" + fmt.Sprint(r.Intn(3))
	}
}

func genEp(r *gen.Rand) epJ {
	tr := trOf(r.Pick(transports))
	if r.Chance(1, 3) {
		return epJ{Ipc: true, Path: r.Pick([]string{"@o2ipc-a", "@o2ipc-b", "/tmp/p", ""}), Tr: tr}
	}
	host := r.Pick([]string{"*", "", "h1", "h2", "flp001.cern.ch"})
	port := uint64(r.Range(9000, 9012))
	switch r.Intn(8) {
	case 0:
		port = 0
	case 1:
		port = 65535
	case 2:
		port = uint64(r.U64())
	case 3:
		port = uint64(r.Range(1, 120000))
	}
	return epJ{Host: host, Port: port, Tr: tr}
}

var pureKeys = []string{"w.a.t1:in0", "w.a.t1:in1", "w.t2:in0", "::ga", "::gb", "in0", "in1", "ctl", "w.a.t1", ":in0", ""}

func genBm(r *gen.Rand, must string, force bool) []kvEp {
	var out []kvEp
	seen := map[string]bool{}
	n := r.Range(0, 4)
	if force {
		out = append(out, kvEp{must, genEp(r)})
		seen[must] = true
	}
	for i := 0; i < n; i++ {
		k := r.Pick(pureKeys)
		if seen[k] {
			continue
		}
		seen[k] = true
		out = append(out, kvEp{k, genEp(r)})
	}
	sort.Slice(out, func(i, j int) bool { return out[i].K < out[j].K })
	return out
}

func genInDecl(r *gen.Rand, names []string) inJ {
	c := inJ{Name: r.Pick(names), Tr: r.Pick(transports), Addr: r.Pick([]string{"", "", "tcp", "ipc", "ipc"})}
	if r.Chance(1, 4) {
		c.Global = r.Pick(globals)
	}
	switch r.Intn(12) {
	case 0, 1:
		c.Target = genExplicit(r)
	case 2:
		c.Target = r.Pick(badTargets)
	}
	return c
}

func genPure(r *gen.Rand, kind int) gen.Case {
	switch kind {
	case 0: // Inbound.ToFMQMap
		c := genInDecl(r, inNames)
		return caseInFmq(c, genBm(r, c.Name, r.Chance(3, 4)))
	case 1: // Outbound.ToFMQMap
		c := outJ{Name: r.Pick(outNames), Tr: r.Pick(transports)}
		force := false
		switch r.Intn(10) {
		case 0, 1:
			c.Target = genExplicit(r)
		case 2:
			c.Target = r.Pick(badTargets)
		case 3:
			c.Target = r.Pick(pureKeys) // maybe present
		case 4:
			c.Target = strings.ToUpper(r.Pick(pureKeys[:5]))
		default:
			c.Target = r.Pick(pureKeys)
			force = true
		}
		return caseOutFmq(c, genBm(r, c.Target, force))
	case 2:
		var hp, lp []inJ
		for i := r.Range(0, 3); i > 0; i-- {
			hp = append(hp, genInDecl(r, inNames))
		}
		for i := r.Range(0, 4); i > 0; i-- {
			lp = append(lp, genInDecl(r, inNames))
		}
		return caseMergeIn(hp, lp)
	case 3:
		mk := func() outJ {
			c := outJ{Name: r.Pick(outNames), Tr: r.Pick(transports), Target: r.Pick(pureKeys)}
			if r.Chance(1, 4) {
				c.Target = genExplicit(r)
			}
			return c
		}
		var hp, lp []outJ
		for i := r.Range(0, 3); i > 0; i-- {
			hp = append(hp, mk())
		}
		for i := r.Range(0, 4); i > 0; i-- {
			lp = append(lp, mk())
		}
		return caseMergeOut(hp, lp)
	default:
		e := genEp(r)
		f := genEp(r)
		host := r.Pick([]string{"h1", "h2", "*", "", "flp001.cern.ch"})
		switch r.Intn(4) {
		case 0:
			f = e
		case 1: // the comparison configureTasks makes: registered (host substituted) vs freshly bound
			f = fromEp(goEp(e).ToTargetEndpoint(host))
		case 2:
			f = e
			f.Tr = trOf(r.Pick(transports))
		}
		return caseEndpoint(e, host, f)
	}
}

func replayPure(in pureInput, kind string) (gen.Case, bool) {
	switch kind {
	case "in_fmq":
		return caseInFmq(*in.In, in.Bm), true
	case "out_fmq":
		return caseOutFmq(*in.Out, in.Bm), true
	case "merge_in":
		return caseMergeIn(in.HpIn, in.LpIn), true
	case "merge_out":
		return caseMergeOut(in.HpOut, in.LpOut), true
	case "endpoint":
		return caseEndpoint(*in.Ep, in.Host, *in.Ep2), true
	}
	return gen.Case{}, false
}

// ---------------------------------------------------------------- end-to-end layer

type roleJ struct {
	Name    string  `json:"name"`
	Bind    []inJ   `json:"bind,omitempty"`
	Connect []outJ  `json:"connect,omitempty"`
	Task    *taskJ  `json:"task,omitempty"` // nil: aggregator
	Roles   []roleJ `json:"roles,omitempty"`
	// Iter: the role is the template of an iterator (`for:` block, variable "it"); one copy
	// named <name>-<value> per value.  Connect targets and bind aliases at or below it may be
	// templates: {{ it }}, {{ Parent().Path }}, {{ Up(n).Path }}.
	Iter []string `json:"iter,omitempty"`
}

type taskJ struct {
	Mode  string `json:"mode"` // direct | fairmq | basic
	CBind []inJ  `json:"cbind,omitempty"`
	CConn []outJ `json:"cconn,omitempty"`
	Host  string `json:"host,omitempty"` // machine_id constraint; "" = anywhere
}

type envInput struct {
	Root  roleJ  `json:"root"`
	Label string `json:"label,omitempty"`
	Seq   bool   `json:"seq,omitempty"` // template / iterator processing sequential instead of concurrent
}

// one flattened task role
type flatTask struct {
	Names []string
	Binds [][]inJ // own, parent, ..., root
	Conns [][]outJ
	T     *taskJ
}

func (f flatTask) path() string { return strings.Join(f.Names, ".") }

var upRe = regexp.MustCompile(`\{\{\s*Up\((\d+)\)\.Path\s*\}\}`)
var parentRe = regexp.MustCompile(`\{\{\s*Parent\(\)\.Path\s*\}\}`)
var itRe = regexp.MustCompile(`\{\{\s*it\s*\}\}`)

// resolveTpl is the harness's own reading of the template fragment used in generated
// declarations: names = path of the role that carries the declaration (root first).
func resolveTpl(t string, names []string, it string) string {
	if !strings.Contains(t, "{{") {
		return t
	}
	t = itRe.ReplaceAllString(t, it)
	t = parentRe.ReplaceAllStringFunc(t, func(string) string {
		if len(names) < 2 {
			return ""
		}
		return strings.Join(names[:len(names)-1], ".")
	})
	t = upRe.ReplaceAllStringFunc(t, func(m string) string {
		var n int
		fmt.Sscanf(upRe.FindStringSubmatch(m)[1], "%d", &n)
		if n <= 0 || n >= len(names) {
			return ""
		}
		return strings.Join(names[:len(names)-n], ".")
	})
	return t
}

// flatten lists the task roles of the workflow with the declarations along their paths, every
// iterator expanded and every template resolved per expansion (independently of the core).
func flatten(root *roleJ) []flatTask {
	var out []flatTask
	var rec func(r *roleJ, name string, names []string, binds [][]inJ, conns [][]outJ, it string)
	rec = func(r *roleJ, name string, names []string, binds [][]inJ, conns [][]outJ, it string) {
		names = append(append([]string(nil), names...), name)
		bind := make([]inJ, len(r.Bind))
		for i, c := range r.Bind {
			c.Global = resolveTpl(c.Global, names, it)
			bind[i] = c
		}
		conn := make([]outJ, len(r.Connect))
		for i, c := range r.Connect {
			c.Target = resolveTpl(c.Target, names, it)
			conn[i] = c
		}
		if r.Bind == nil {
			bind = nil
		}
		if r.Connect == nil {
			conn = nil
		}
		binds = append([][]inJ{bind}, binds...)
		conns = append([][]outJ{conn}, conns...)
		if r.Task != nil {
			out = append(out, flatTask{Names: names, Binds: binds, Conns: conns, T: r.Task})
			return
		}
		for i := range r.Roles {
			c := &r.Roles[i]
			if len(c.Iter) > 0 {
				for _, v := range c.Iter {
					rec(c, c.Name+"-"+v, names, binds, conns, v)
				}
				continue
			}
			rec(c, c.Name, names, binds, conns, it)
		}
	}
	rec(root, root.Name, nil, nil, nil, "")
	return out
}

// names of the inbound channels of a task in the order the scheduler processes them
// (own block as written, then each ancestor's new names, then the template's new names)
func mergedInNames(f flatTask) []string {
	var names []string
	seen := map[string]bool{}
	for i, blk := range append(append([][]inJ(nil), f.Binds...), f.T.CBind) {
		for _, c := range blk {
			if i == 0 || !seen[c.Name] {
				names = append(names, c.Name)
			}
			seen[c.Name] = true
		}
	}
	return names
}

func yq(s string) string { b, _ := json.Marshal(s); return string(b) }

func emitIn(b *strings.Builder, ind string, l []inJ) {
	if len(l) == 0 {
		return
	}
	b.WriteString(ind + "bind:\n")
	for _, c := range l {
		b.WriteString(ind + "  - name: " + yq(c.Name) + "\n")
		b.WriteString(ind + "    type: pull\n")
		if c.Tr != "" {
			b.WriteString(ind + "    transport: " + yq(c.Tr) + "\n")
		}
		if c.Addr != "" {
			b.WriteString(ind + "    addressing: " + yq(c.Addr) + "\n")
		}
		if c.Global != "" {
			b.WriteString(ind + "    global: " + yq(c.Global) + "\n")
		}
		if c.Target != "" {
			b.WriteString(ind + "    target: " + yq(c.Target) + "\n")
		}
	}
}

func emitOut(b *strings.Builder, ind string, l []outJ) {
	if len(l) == 0 {
		return
	}
	b.WriteString(ind + "connect:\n")
	for _, c := range l {
		b.WriteString(ind + "  - name: " + yq(c.Name) + "\n")
		b.WriteString(ind + "    type: push\n")
		if c.Tr != "" {
			b.WriteString(ind + "    transport: " + yq(c.Tr) + "\n")
		}
		b.WriteString(ind + "    target: " + yq(c.Target) + "\n")
	}
}

func emitRole(b *strings.Builder, ind string, r *roleJ, classOf map[*taskJ]string) {
	in2 := ind + "  "
	if len(r.Iter) > 0 {
		vals, _ := json.Marshal(r.Iter)
		b.WriteString(ind + "- name: " + yq(r.Name+"-{{ it }}") + "\n")
		b.WriteString(in2 + "for:\n" + in2 + "  range: " + yq(string(vals)) + "\n" + in2 + "  var: it\n")
	} else {
		b.WriteString(ind + "- name: " + yq(r.Name) + "\n")
	}
	emitIn(b, in2, r.Bind)
	emitOut(b, in2, r.Connect)
	if r.Task != nil {
		if r.Task.Host != "" {
			b.WriteString(in2 + "constraints:\n" + in2 + "  - attribute: machine_id\n" + in2 + "    value: " + yq(r.Task.Host) + "\n")
		}
		b.WriteString(in2 + "task:\n" + in2 + "  load: " + classOf[r.Task] + "\n")
		return
	}
	b.WriteString(in2 + "roles:\n")
	for i := range r.Roles {
		emitRole(b, in2+"  ", &r.Roles[i], classOf)
	}
}

func classYAML(name string, t *taskJ) string {
	var b strings.Builder
	b.WriteString("name: " + name + "\ncontrol:\n  mode: " + t.Mode + "\nwants:\n  cpu: 0.01\n  memory: 1\n")
	emitIn(&b, "", t.CBind)
	emitOut(&b, "", t.CConn)
	b.WriteString("command:\n  env: []\n  shell: true\n  value: \"sleep 1000\"\n")
	return b.String()
}

type world struct {
	s         *simcore.Sim
	rec       *vplugin.Recorder
	mu        sync.Mutex
	snap      map[string]taskSnap // env id | role path -> snapshot
	seq       int
	retries   int
	reoffers  int
	abandoned int
}

type taskSnap struct {
	TaskId string
	Host   string
	Local  map[string]epJ
}

func newWorld(dir string) (*world, error) {
	w := &world{rec: vplugin.NewRecorder()}
	var agents []simcore.Agent
	for _, h := range hostPool {
		agents = append(agents, simcore.Agent{Hostname: h, CPUs: 64, Mem: 65536,
			Ports: [][2]uint64{{9000, 9200}, {30000, 30200}}, Attributes: map[string]string{"machine_id": h}})
	}
	s, err := simcore.New(simcore.Options{
		Plugins: map[string]integration.NewFunc{"verif": vplugin.New(w.rec)},
		WorkDir: dir, Workflows: map[string]string{}, TaskClasses: map[string]string{},
		Agents: agents, Quiet: os.Getenv("SIM_VERBOSE") == "",
	})
	if err != nil {
		return nil, err
	}
	w.s = s
	w.rec.OnStart = func(id string, vars map[string]string) {
		snap := map[string]taskSnap{}
		for _, ti := range s.Taskman.VerifRoster() {
			if ti.RolePath == "" {
				continue
			}
			t := s.Taskman.GetTask(ti.TaskId)
			if t == nil {
				continue
			}
			loc := map[string]epJ{}
			for k, e := range t.GetLocalBindMap() {
				loc[k] = fromEp(e)
			}
			snap[ti.EnvId+"|"+ti.RolePath] = taskSnap{TaskId: ti.TaskId, Host: ti.Hostname, Local: loc}
		}
		w.mu.Lock()
		w.snap = snap
		w.mu.Unlock()
	}
	return w, nil
}

var ipcRe = regexp.MustCompile(`@o2ipc-[0-9a-v]{20}`)

type envObs struct {
	Error string                   `json:"error,omitempty"`
	Tasks []map[string]interface{} `json:"tasks,omitempty"`
}

// runEnv creates the environment; a failure that has nothing to do with channels (the
// deployment of the simulated tasks timing out) is retried.
func (w *world) runEnv(in envInput) gen.Case {
	var c gen.Case
	for try := 0; try < 4; try++ {
		var unrelated bool
		c, unrelated = w.runEnvOnce(in)
		if !unrelated {
			break
		}
		w.retries++
	}
	return c
}

func (w *world) runEnvOnce(in envInput) (gen.Case, bool) {
	w.seq++
	s := w.s
	// watchdog: a case normally takes milliseconds (a few seconds when the deployment wait
	// times out); if the core gets stuck, say where and give up instead of hanging the check
	wd := time.AfterFunc(12*time.Second, func() {
		fmt.Fprintf(os.Stderr, "h13: environment %d did not finish within 12 s; goroutine dump follows\n", w.seq)
		_ = pprof.Lookup("goroutine").WriteTo(os.Stderr, 1)
		os.Exit(3)
	})
	defer wd.Stop()
	fl := flatten(&in.Root)
	classOf := map[*taskJ]string{}
	for i := range fl {
		if _, done := classOf[fl[i].T]; done {
			continue // expansions of one iterator template share the class
		}
		name := fmt.Sprintf("k%dx%d", w.seq, i)
		classOf[fl[i].T] = name
		if err := os.WriteFile(filepath.Join(s.RepoDir, "tasks", name+".yaml"), []byte(classYAML(name, fl[i].T)), 0o644); err != nil {
			panic(err)
		}
	}
	wfName := in.Root.Name
	var b strings.Builder
	b.WriteString("name: " + wfName + "\ndefaults:\n  deploy_timeout: 1500ms\n")
	emitIn(&b, "", in.Root.Bind)
	emitOut(&b, "", in.Root.Connect)
	b.WriteString("roles:\n")
	for i := range in.Root.Roles {
		emitRole(&b, "  ", &in.Root.Roles[i], classOf)
	}
	b.WriteString("  - name: \"zzprobe\"\n    call:\n      func: verif.Probe(\"pre\")\n      trigger: before_CONFIGURE\n      timeout: 5s\n      critical: false\n")
	if err := os.WriteFile(filepath.Join(s.RepoDir, "workflows", wfName+".yaml"), []byte(b.String()), 0o644); err != nil {
		panic(err)
	}
	w.mu.Lock()
	w.snap = nil
	w.mu.Unlock()
	before := len(s.CallsSnapshot())
	envId := uid.New()
	// A Mesos master offers unused resources again and again; the simulated one only answers
	// REVIVE.  Repeat the offers while the creation is under way so that a deployment request
	// that missed its offers round (a race inside the core that has nothing to do with
	// channels) is served by the next one instead of waiting for ever.
	doneCh := make(chan struct{})
	go func() {
		tk := time.NewTicker(700 * time.Millisecond)
		defer tk.Stop()
		for {
			select {
			case <-doneCh:
				return
			case <-tk.C:
				w.mu.Lock()
				w.reoffers++
				w.mu.Unlock()
				s.SendOffers()
			}
		}
	}()
	for _, k := range []string{"concurrentWorkflowTemplateProcessing", "concurrentWorkflowTemplateIteratorProcessing", "concurrentIteratorRoleExpansion"} {
		viper.Set(k, !in.Seq)
	}
	_, err := s.Envman.CreateEnvironment(wfName, map[string]string{}, false, envId, false)
	close(doneCh)
	calls := s.CallsSnapshot()[before:]
	w.mu.Lock()
	snap := w.snap
	w.mu.Unlock()

	// per task: host, local map, ACCEPT ports, CONFIGURE chans
	type perTask struct {
		host  string
		local map[string]epJ
		ports []uint64
		cfg   map[string]cpJ
		got   bool
	}
	pts := make([]perTask, len(fl))
	byTask := map[string]int{}
	for i, f := range fl {
		if sn, ok := snap[envId.String()+"|"+f.path()]; ok {
			pts[i].host, pts[i].local = sn.Host, sn.Local
			byTask[sn.TaskId] = i
		}
	}
	for _, c := range calls {
		if c.Type == "ACCEPT" {
			for _, ti := range c.Tasks {
				i, ok := byTask[ti.TaskID.Value]
				if !ok {
					continue
				}
				for _, res := range ti.Resources {
					if res.GetName() == "ports" && res.Ranges != nil {
						for _, rg := range res.Ranges.Range {
							for p := rg.Begin; p <= rg.End && p < rg.Begin+256; p++ {
								pts[i].ports = append(pts[i].ports, p)
							}
						}
					}
				}
			}
		}
		if c.Type == "MESSAGE" && c.Msg != nil && c.Msg.Name == "MesosCommand_Transition" && c.Msg.Event == "CONFIGURE" {
			for _, tid := range c.Msg.TaskIds {
				if i, ok := byTask[tid]; ok {
					pts[i].cfg = chanProps(c.Msg.Arguments)
					pts[i].got = true
				}
			}
		}
	}
	// canonical names for the random IPC paths: first occurrence over tasks (workflow order),
	// local map keys sorted
	canon := map[string]string{}
	cn := func(sv string) string {
		return ipcRe.ReplaceAllStringFunc(sv, func(m string) string {
			if c, ok := canon[m]; ok {
				return c
			}
			c := fmt.Sprintf("@o2ipc-#%d", len(canon))
			canon[m] = c
			return c
		})
	}
	for i := range pts {
		keys := make([]string, 0, len(pts[i].local))
		for k := range pts[i].local {
			keys = append(keys, k)
		}
		sort.Strings(keys)
		nl := map[string]epJ{}
		for _, k := range keys {
			e := pts[i].local[k]
			e.Path = cn(e.Path)
			nl[k] = e
		}
		pts[i].local = nl
	}
	for i := range pts {
		names := make([]string, 0, len(pts[i].cfg))
		for n := range pts[i].cfg {
			names = append(names, n)
		}
		sort.Strings(names)
		for _, n := range names {
			c := pts[i].cfg[n]
			c.Address = cn(c.Address)
			pts[i].cfg[n] = c
		}
	}

	// Coq terms
	var wts, obsItems, portItems []string
	var tasksObs []map[string]interface{}
	for i, f := range fl {
		var bindBlocks, connBlocks []string
		for _, blk := range f.Binds {
			bindBlocks = append(bindBlocks, insTerm(blk))
		}
		for _, blk := range f.Conns {
			connBlocks = append(connBlocks, outsTerm(blk))
		}
		var allocs []string
		for _, n := range mergedInNames(f) {
			e := pts[i].local[n]
			if e.Ipc {
				allocs = append(allocs, gen.Pair("0", gen.Str(e.Path)))
			} else {
				allocs = append(allocs, gen.Pair(gen.N(e.Port), "[]"))
			}
		}
		wts = append(wts, fmt.Sprintf("mkW %s %s %s %s %s %s %s %s", gen.StrList(f.Names), gen.List(bindBlocks), gen.List(connBlocks),
			gen.Bool(f.T.Mode != "basic"), insTerm(f.T.CBind), outsTerm(f.T.CConn), gen.Str(pts[i].host), gen.List(allocs)))
		keys := make([]string, 0, len(pts[i].local))
		for k := range pts[i].local {
			keys = append(keys, k)
		}
		sort.Strings(keys)
		var loc []kvEp
		for _, k := range keys {
			loc = append(loc, kvEp{k, pts[i].local[k]})
		}
		cfg := pts[i].cfg
		if cfg == nil {
			cfg = map[string]cpJ{}
		}
		obsItems = append(obsItems, gen.Pair(bmTerm(loc), propsTerm(cfg)))
		portItems = append(portItems, gen.NList(pts[i].ports))
		tasksObs = append(tasksObs, map[string]interface{}{"path": f.path(), "host": pts[i].host, "local": loc,
			"configure": cfg, "accept_ports": pts[i].ports, "configure_seen": pts[i].got})
	}
	obs := gen.None()
	eo := envObs{Tasks: tasksObs}
	if err == nil {
		obs = gen.Some(gen.List(obsItems))
		for i := range pts {
			if !pts[i].got {
				// a task that never received CONFIGURE although creation succeeded
				obs = gen.Some(gen.List(append(obsItems, gen.Pair("[]", "[]"))))
				eo.Error = "task " + fl[i].path() + " received no CONFIGURE"
			}
		}
	} else {
		eo.Error = err.Error()
	}
	// clean up so that the roster stays small
	// (the teardown of the core can wait for ever for a release notification — a liveness
	// defect recorded under C06 that has nothing to do with channels; it is abandoned then)
	if err == nil {
		td := make(chan struct{})
		go func() {
			defer close(td)
			_, _ = s.Rpc.DestroyEnvironment(context.Background(), &pb.DestroyEnvironmentRequest{Id: envId.String(), AllowInRunningState: true, Force: true})
		}()
		select {
		case <-td:
		case <-time.After(5 * time.Second):
			w.abandoned++
			fmt.Fprintf(os.Stderr, "h13: teardown of environment %d did not return within 5 s; left behind\n", w.seq)
		}
	}
	kind := "env_ok"
	if err != nil {
		kind = "env_fail"
	}
	if in.Label != "" {
		kind = "env_corpus"
	}
	unrelated := err != nil && !strings.Contains(err.Error(), "could not match target") &&
		!strings.Contains(err.Error(), "redefinition of global channel alias") && snap == nil
	if unrelated {
		fmt.Fprintf(os.Stderr, "h13: environment %d failed before CONFIGURE (retrying): %v\n", w.seq, err)
	}
	return gen.Case{Term: fmt.Sprintf("CEnv %s %s %s", gen.List(wts), obs, gen.List(portItems)), Kind: kind,
		Input: map[string]interface{}{"env": in}, Obs: eo}, unrelated
}

// ---------------------------------------------------------------- workflow generator

func genEnv(r *gen.Rand) envInput {
	root := roleJ{Name: "w"}
	taskCount := 0
	// clean: every target names something and aliases are pairwise different, so that the
	// configuration is expected to succeed; wild: anything goes
	clean := r.Chance(3, 5)
	aliasSeq := 0
	mkTask := func(name string) roleJ {
		taskCount++
		t := &taskJ{Mode: r.Pick([]string{"direct", "direct", "direct", "direct", "fairmq", "fairmq", "fairmq", "fairmq", "fairmq", "basic"})}
		if r.Chance(3, 4) {
			t.Host = r.Pick(hostPool)
		}
		return roleJ{Name: name, Task: t}
	}
	// tree shape
	for i, n := 0, r.Range(0, 2); i < n; i++ {
		root.Roles = append(root.Roles, mkTask(fmt.Sprintf("t%d", i)))
	}
	for g, ng := 0, r.Range(0, 2); g < ng; g++ {
		grp := roleJ{Name: fmt.Sprintf("g%d", g)}
		for i, n := 0, r.Range(1, 2); i < n; i++ {
			grp.Roles = append(grp.Roles, mkTask(fmt.Sprintf("t%d", i)))
		}
		if r.Chance(1, 4) {
			sub := roleJ{Name: "s"}
			for i, n := 0, r.Range(1, 2); i < n; i++ {
				sub.Roles = append(sub.Roles, mkTask(fmt.Sprintf("u%d", i)))
			}
			grp.Roles = append(grp.Roles, sub)
		}
		root.Roles = append(root.Roles, grp)
	}
	if taskCount == 0 {
		root.Roles = append(root.Roles, mkTask("t0"))
	}
	// inbound declarations
	declIn := func(aggr bool) inJ {
		c := genInDecl(r, inNames)
		if aggr && (clean || r.Chance(2, 3)) {
			c.Global = "" // an alias declared above several tasks is a conflict; keep it rare
		}
		if c.Target != "" && r.Chance(3, 4) {
			c.Target = "" // inbound channels with a target of their own: a minority
		}
		if clean && c.Target != "" && !strings.HasPrefix(c.Target, "tcp://") && !strings.HasPrefix(c.Target, "ipc://") {
			c.Target = "" // an invalid target fails the configuration
		}
		if c.Global != "" && clean {
			aliasSeq++
			c.Global = fmt.Sprintf("u-%d", aliasSeq)
		} else if c.Global != "" && r.Chance(1, 2) {
			c.Global = fmt.Sprintf("g-%d", r.Intn(6)) // mostly distinct aliases
		}
		return c
	}
	uniq := func(l []inJ) []inJ {
		// a block naming a channel twice is generated rarely and then without aliases
		seen := map[string]bool{}
		var out []inJ
		for _, c := range l {
			if seen[c.Name] {
				if !r.Chance(1, 12) {
					continue
				}
				c.Global = ""
				for i := range out {
					if out[i].Name == c.Name {
						out[i].Global = ""
					}
				}
			}
			seen[c.Name] = true
			out = append(out, c)
		}
		return out
	}
	var walk func(ro *roleJ)
	walk = func(ro *roleJ) {
		if ro.Task == nil {
			if r.Chance(1, 3) {
				ro.Bind = uniq([]inJ{declIn(true)})
			}
			for i := range ro.Roles {
				walk(&ro.Roles[i])
			}
			return
		}
		var own, cls []inJ
		for i := r.Range(0, 2); i > 0; i-- {
			own = append(own, declIn(false))
		}
		for i := r.Range(0, 2); i > 0; i-- {
			cls = append(cls, declIn(false))
		}
		ro.Bind, ro.Task.CBind = uniq(own), uniq(cls)
	}
	walk(&root)
	// what can be named
	fl := flatten(&root)
	var keys, aliases []string
	ipcHost := map[string]string{} // target -> host of the task that binds an IPC-addressed channel ("?" = not pinned)
	for _, f := range fl {
		if f.T.Mode == "basic" {
			continue
		}
		seen := map[string]bool{}
		for _, blk := range append(append([][]inJ(nil), f.Binds...), f.T.CBind) {
			for _, c := range blk {
				if clean && c.Target != "" {
					seen[c.Name] = true
					continue // not advertised: naming it fails the configuration
				}
				h := f.T.Host
				if h == "" {
					h = "?"
				}
				keys = append(keys, f.path()+":"+c.Name)
				if c.Addr == "ipc" {
					ipcHost[f.path()+":"+c.Name] = h
				}
				if c.Global != "" && (!clean || !seen[c.Name]) {
					aliases = append(aliases, "::"+c.Global) // clean: only aliases of declarations that apply
					if c.Addr == "ipc" {
						ipcHost["::"+c.Global] = h
					}
				}
				seen[c.Name] = true
			}
		}
	}
	curHost := "" // host of the task whose connect block is being generated ("" = several / not pinned)
	target0 := func() string {
		x := r.Intn(100)
		if clean {
			x = x * 82 / 100
			if len(keys) == 0 && len(aliases) == 0 {
				return genExplicit(r)
			}
		}
		switch {
		case x < 50 && len(keys) > 0:
			return r.Pick(keys)
		case x < 68 && len(aliases) > 0:
			return r.Pick(aliases)
		case x < 82:
			return genExplicit(r)
		case x < 86:
			return "::" + r.Pick(globals)
		case x < 92:
			return r.Pick([]string{"w.t0:in0", "w.g0.t0:in1", "w.g1.t1:ctl", "w.t1:in2"})
		default:
			return r.Pick([]string{"w.nowhere:in0", "w.t0:missing", "", "in0", "::zz", "w.t0", "W.T0:IN0", "w.t0:in0 x"})
		}
	}
	// clean workflows do not connect to an IPC endpoint of another host (refused)
	target := func() string {
		for try := 0; try < 6; try++ {
			tg := target0()
			if h, ipc := ipcHost[tg]; clean && ipc && (h == "?" || h != curHost) {
				continue
			}
			return tg
		}
		return genExplicit(r)
	}
	declOut := func(names []string) outJ {
		return outJ{Name: r.Pick(names), Tr: r.Pick(transports), Target: target()}
	}
	uniqO := func(l []outJ) []outJ {
		seen := map[string]bool{}
		var out []outJ
		for _, c := range l {
			if seen[c.Name] && !r.Chance(1, 12) {
				continue
			}
			seen[c.Name] = true
			out = append(out, c)
		}
		return out
	}
	var walk2 func(ro *roleJ)
	walk2 = func(ro *roleJ) {
		names := outNames
		if r.Chance(1, 40) {
			names = inNames // a name used in both directions
		}
		curHost = ""
		if ro.Task != nil {
			curHost = ro.Task.Host
		}
		if ro.Task == nil {
			if r.Chance(1, 6) {
				ro.Connect = []outJ{declOut(names)}
			}
			for i := range ro.Roles {
				walk2(&ro.Roles[i])
			}
			return
		}
		var own []outJ
		for i := r.Range(0, 3); i > 0; i-- {
			own = append(own, declOut(names))
		}
		ro.Connect = uniqO(own)
		if r.Chance(1, 4) && (!clean || len(ro.Connect) > 0) {
			c := declOut(names)
			if len(ro.Connect) > 0 && (clean || r.Chance(4, 5)) {
				c.Name = ro.Connect[r.Intn(len(ro.Connect))].Name // shadowed by the role level
			}
			ro.Task.CConn = []outJ{c}
		}
	}
	walk2(&root)
	return envInput{Root: root}
}

// genIterEnv: workflows whose channels are declared at or below an iterator role, with
// per-iteration connect targets and bind aliases; 1-3 iterations, sequential or concurrent
// template processing.
func genIterEnv(r *gen.Rand) envInput {
	vals := [][]string{{"a", "b"}, {"a", "b", "c"}, {"x", "y"}, {"1", "2", "3"}, {"a"}}[r.Intn(5)]
	mode := func() string { return r.Pick([]string{"direct", "fairmq", "fairmq"}) }
	host := func() string {
		if r.Chance(1, 2) {
			return r.Pick(hostPool)
		}
		return ""
	}
	root := roleJ{Name: "w"}
	plainIn := r.Chance(1, 2)
	if plainIn {
		t0 := roleJ{Name: "t0", Bind: []inJ{{Name: "in0", Tr: r.Pick(transports)}}, Task: &taskJ{Mode: mode(), Host: host()}}
		if r.Chance(1, 2) {
			// iteration-independent target into one expansion
			t0.Connect = []outJ{{Name: "out0", Target: "w.g-" + vals[0] + ".r:in0"}}
			if r.Chance(1, 3) {
				t0.Connect = append(t0.Connect, outJ{Name: "out1", Target: "::ga-" + vals[len(vals)-1]})
			}
		}
		root.Roles = append(root.Roles, t0)
	}
	if r.Chance(3, 4) {
		// aggregator template: binder r, one or two connecting siblings
		rb := roleJ{Name: "r", Task: &taskJ{Mode: mode(), Host: host()}}
		rb.Bind = []inJ{{Name: "in0", Tr: r.Pick(transports), Global: "ga-{{ it }}"}}
		if r.Chance(1, 4) {
			rb.Bind[0].Global = ""
		}
		if r.Chance(1, 2) {
			rb.Bind = append(rb.Bind, inJ{Name: "in1", Tr: r.Pick(transports)})
		}
		if r.Chance(1, 6) {
			rb.Bind[0].Addr = "ipc"
		}
		tgt := func(ch string) string {
			switch r.Intn(6) {
			case 0:
				return "{{ Up(1).Path }}.r:" + ch
			case 1:
				return "{{ Parent().Path }}.r:" + ch
			case 2:
				return "w.g-{{ it }}.r:" + ch
			case 3:
				return "{{ Up(2).Path }}.g-{{ it }}.r:" + ch
			case 4:
				if ch == "in0" && rb.Bind[0].Global != "" {
					return "::ga-{{ it }}"
				}
				return "{{ Up(1).Path }}.r:" + ch
			default:
				if plainIn {
					return "w.t0:in0" // the same for every iteration
				}
				return "{{ Parent().Path }}.r:" + ch
			}
		}
		g := roleJ{Name: "g", Iter: vals, Roles: []roleJ{rb}}
		for i, n := 0, r.Range(1, 2); i < n; i++ {
			sc := roleJ{Name: fmt.Sprintf("s%d", i), Task: &taskJ{Mode: mode(), Host: host()}}
			if rb.Bind[0].Addr == "ipc" {
				sc.Task.Host, rb.Task.Host = "h1", "h1" // IPC is local
			}
			for k, m := 0, r.Range(1, 3); k < m; k++ {
				ch := "in0"
				if len(rb.Bind) > 1 && r.Chance(1, 3) {
					ch = "in1"
				}
				sc.Connect = append(sc.Connect, outJ{Name: fmt.Sprintf("out%d", k), Tr: r.Pick(transports), Target: tgt(ch)})
			}
			if r.Chance(1, 5) {
				sc.Bind = []inJ{{Name: "ctl"}}
			}
			g.Roles = append(g.Roles, sc)
		}
		if r.Chance(1, 4) {
			// declared on the iterated aggregator itself, inherited by its task roles
			g.Connect = []outJ{{Name: "mon", Target: "w.g-{{ it }}.r:in0"}}
		}
		if r.Chance(1, 2) {
			root.Roles = append(root.Roles, g)
		} else {
			root.Roles = append([]roleJ{g}, root.Roles...)
		}
	} else {
		// the iterated role is a task role
		u := roleJ{Name: "u", Iter: vals, Task: &taskJ{Mode: mode(), Host: host()}}
		u.Bind = []inJ{{Name: "in0", Tr: r.Pick(transports), Global: "gu-{{ it }}"}}
		if plainIn {
			u.Connect = []outJ{{Name: "out0", Target: "w.t0:in0"}}
		}
		if r.Chance(1, 2) {
			u.Connect = append(u.Connect, outJ{Name: "out1", Target: "w.u-{{ it }}:in0"}) // its own inbound channel
		}
		v := roleJ{Name: "v", Task: &taskJ{Mode: mode(), Host: host()}}
		for k, x := range vals {
			v.Connect = append(v.Connect, outJ{Name: fmt.Sprintf("out%d", k), Target: r.Pick([]string{"w.u-" + x + ":in0", "::gu-" + x})})
		}
		root.Roles = append(root.Roles, u, v)
	}
	return envInput{Root: root, Seq: r.Chance(1, 3)}
}

// fixed workflows that run first: one per clause of the property and the witnesses of the
// three repaired findings (regression cases)
func corpus() []envInput {
	t := func(name, mode, host string, bind []inJ, conn []outJ, cb []inJ, cc []outJ) roleJ {
		return roleJ{Name: name, Bind: bind, Connect: conn, Task: &taskJ{Mode: mode, Host: host, CBind: cb, CConn: cc}}
	}
	w := func(label string, roles ...roleJ) envInput {
		return envInput{Label: label, Root: roleJ{Name: "w", Roles: roles}}
	}
	itw := func(label string, seq bool, roles ...roleJ) envInput {
		return envInput{Label: label, Seq: seq, Root: roleJ{Name: "w", Roles: roles}}
	}
	return []envInput{
		// former finding C13-a (repaired): an inbound channel with an explicit target is not
		// advertised; the peer that names it is refused
		w("explicit-inbound-target",
			t("b", "direct", "h1", []inJ{{Name: "in0", Target: "tcp://*:5555"}}, nil, nil, nil),
			t("c", "fairmq", "h2", nil, []outJ{{Name: "out0", Target: "w.b:in0"}}, nil, nil)),
		// former finding C13-b (repaired): an inbound channel with an invalid target fails the
		// configuration
		w("invalid-inbound-target",
			t("b", "direct", "h1", []inJ{{Name: "in0", Target: "nonsense"}}, nil, nil, nil),
			t("c", "fairmq", "h2", nil, []outJ{{Name: "out0", Target: "w.b:in0"}}, nil, nil)),
		// former finding C13-c (repaired): two channels of one task claim one alias: refused
		w("alias-twice-in-one-task",
			t("b", "direct", "h1", []inJ{{Name: "in0", Global: "ga"}, {Name: "in1", Global: "ga", Addr: "ipc"}}, nil, nil, nil),
			t("c", "fairmq", "h2", nil, []outJ{{Name: "out0", Target: "::ga"}}, nil, nil)),
		// static bind address on both sides: accepted, the binder is told its target, nothing
		// is allocated for the channel
		w("static-both-sides",
			t("b", "direct", "h1", []inJ{{Name: "in0", Target: "tcp://*:5555", Global: "ga"}, {Name: "in1"}}, nil, nil, nil),
			t("c", "fairmq", "h2", nil, []outJ{{Name: "out0", Target: "tcp://h1:5555"}, {Name: "out1", Target: "w.b:in1"}}, nil, nil)),
		// plain: path target across hosts, alias target, ipc, template-level bind overridden
		w("plain",
			t("b", "direct", "h1", []inJ{{Name: "in0", Tr: "zeromq"}, {Name: "ctl", Addr: "ipc", Tr: "shmem", Global: "ga"}}, nil,
				[]inJ{{Name: "in0", Tr: "shmem"}, {Name: "in1"}}, nil),
			t("c", "fairmq", "h2", nil, []outJ{{Name: "out0", Target: "w.b:in0", Tr: "nanomsg"},
				{Name: "out2", Target: "w.b:in1"}, {Name: "mon", Target: "tcp://somewhere:1234", Tr: "zeromq"}}, nil,
				[]outJ{{Name: "out0", Target: "ignored"}}),
			t("d", "direct", "h1", nil, []outJ{{Name: "out1", Target: "::ga"}, {Name: "out2", Target: "w.b:ctl"}}, nil, nil)),
		// former finding C13-d (repaired): an IPC endpoint is reachable on the binder's host
		// only; a peer on another host is refused
		w("ipc-across-hosts",
			t("b", "direct", "h1", []inJ{{Name: "in0", Addr: "ipc"}}, nil, nil, nil),
			t("c", "fairmq", "h2", nil, []outJ{{Name: "out0", Target: "w.b:in0"}}, nil, nil)),
		// alias claimed by two tasks: rejected
		w("alias-in-two-tasks",
			t("b", "direct", "h1", []inJ{{Name: "in0", Global: "ga"}}, nil, nil, nil),
			t("c", "direct", "h2", []inJ{{Name: "in0", Global: "ga"}}, nil, nil, nil)),
		// iterators: every expansion has its own declarations; per-iteration targets and aliases
		// ({{ Up(1).Path }}, {{ Parent().Path }}, {{ it }}) resolve to the expansion's own peer
		itw("iterator-up-path", false,
			roleJ{Name: "g", Iter: []string{"a", "b", "c"}, Roles: []roleJ{
				t("r", "direct", "h1", []inJ{{Name: "in0"}}, nil, nil, nil),
				t("s", "fairmq", "h2", nil, []outJ{{Name: "out0", Target: "{{ Up(1).Path }}.r:in0"}}, nil, nil)}}),
		itw("iterator-parent-it-alias", true,
			roleJ{Name: "g", Iter: []string{"a", "b"}, Roles: []roleJ{
				t("r", "direct", "", []inJ{{Name: "in0", Global: "ga-{{ it }}"}, {Name: "in1", Tr: "zeromq"}}, nil, nil, nil),
				t("s", "fairmq", "", nil, []outJ{{Name: "out0", Target: "{{ Parent().Path }}.r:in0"}, {Name: "out1", Target: "::ga-{{ it }}"},
					{Name: "out2", Target: "w.g-{{ it }}.r:in1"}}, nil, nil)}}),
		itw("iterator-task-template", false,
			t("t0", "direct", "h3", []inJ{{Name: "in0"}}, []outJ{{Name: "out0", Target: "::gu-b"}, {Name: "out1", Target: "w.u-a:in0"}}, nil, nil),
			func() roleJ {
				r := t("u", "fairmq", "", []inJ{{Name: "in0", Global: "gu-{{ it }}"}}, []outJ{{Name: "out0", Target: "w.t0:in0"}}, nil, nil)
				r.Iter = []string{"a", "b"}
				return r
			}()),
		// target that names nothing: rejected
		w("unmatched",
			t("b", "direct", "h1", []inJ{{Name: "in0"}}, nil, nil, nil),
			t("c", "fairmq", "h1", nil, []outJ{{Name: "out0", Target: "w.b:in1"}}, nil, nil)),
	}
}

// ---------------------------------------------------------------- process isolation
//
// The environments are created by a child process (`h13 -child`): it reads one envInput per
// line on stdin and answers one childOut per line on stdout.  The core under test has races of
// its own that have nothing to do with channels (a nil dereference in updateTaskState when a
// late state update meets a release, creation or teardown waiting for ever); when the child
// dies or stops answering, the parent starts a new one and continues with the same input.  An
// input that kills the child three times in a row is reported as an error of the run.

type childOut struct {
	Term      string          `json:"term"`
	Kind      string          `json:"kind"`
	Input     json.RawMessage `json:"input"`
	Obs       json.RawMessage `json:"obs"`
	Seq       int             `json:"seq"`
	Retries   int             `json:"retries"`
	Reoffers  int             `json:"reoffers"`
	Abandoned int             `json:"abandoned"`
}

func childMain() {
	build := os.Getenv("VERIF_BUILD")
	if build == "" {
		build = "/verif/build"
	}
	w, err := newWorld(filepath.Join(build, "sim", "C13"))
	if err != nil {
		fmt.Fprintln(os.Stderr, "simcore:", err)
		os.Exit(3)
	}
	in := bufio.NewReaderSize(os.Stdin, 1<<20)
	out := bufio.NewWriter(os.Stdout)
	for {
		line, err := in.ReadBytes('\n')
		if len(bytes.TrimSpace(line)) > 0 {
			var ei envInput
			if e := json.Unmarshal(line, &ei); e != nil {
				fmt.Fprintln(os.Stderr, "h13 child: bad input:", e)
				os.Exit(3)
			}
			c := w.runEnv(ei)
			ij, _ := json.Marshal(c.Input)
			oj, _ := json.Marshal(c.Obs)
			b, _ := json.Marshal(childOut{Term: c.Term, Kind: c.Kind, Input: ij, Obs: oj, Seq: w.seq,
				Retries: w.retries, Reoffers: w.reoffers, Abandoned: w.abandoned})
			out.Write(b)
			out.WriteByte('\n')
			out.Flush()
		}
		if err != nil {
			return
		}
	}
}

type runStats struct{ envs, retries, reoffers, abandoned, restarts int }

// runEnvs runs the inputs in order through child processes.
func runEnvs(inputs []envInput, st *runStats) []gen.Case {
	res := make([]gen.Case, 0, len(inputs))
	fails := 0
	for len(res) < len(inputs) {
		start := len(res)
		cmd := exec.Command(os.Args[0], "-child", "-out", os.TempDir())
		cmd.Stderr = os.Stderr
		stdin, err := cmd.StdinPipe()
		if err != nil {
			panic(err)
		}
		stdout, err := cmd.StdoutPipe()
		if err != nil {
			panic(err)
		}
		if err := cmd.Start(); err != nil {
			panic(err)
		}
		go func() {
			for _, in := range inputs[start:] {
				b, _ := json.Marshal(in)
				if _, err := stdin.Write(append(b, '\n')); err != nil {
					return
				}
			}
			stdin.Close()
		}()
		lines := make(chan []byte)
		go func() {
			rd := bufio.NewReaderSize(stdout, 1<<20)
			for {
				l, err := rd.ReadBytes('\n')
				if len(bytes.TrimSpace(l)) > 0 {
					lines <- l
				}
				if err != nil {
					close(lines)
					return
				}
			}
		}()
		var last childOut
	read:
		for len(res) < len(inputs) {
			select {
			case l, ok := <-lines:
				if !ok {
					break read
				}
				if !bytes.HasPrefix(l, []byte(`{"term":`)) {
					continue // something else printed on stdout by the core
				}
				var co childOut
				if err := json.Unmarshal(l, &co); err != nil {
					fmt.Fprintln(os.Stderr, "h13: unreadable answer of the child:", err)
					break read
				}
				var in, ob interface{}
				_ = json.Unmarshal(co.Input, &in)
				_ = json.Unmarshal(co.Obs, &ob)
				res = append(res, gen.Case{Term: co.Term, Kind: co.Kind, Input: in, Obs: ob})
				last = co
				fails = 0
			case <-time.After(60 * time.Second):
				fmt.Fprintf(os.Stderr, "h13: no answer for environment input %d within 60 s\n", len(res))
				break read
			}
		}
		_ = cmd.Process.Kill()
		go func() {
			for range lines {
			}
		}()
		_ = cmd.Wait()
		st.envs += last.Seq
		st.retries += last.Retries
		st.reoffers += last.Reoffers
		st.abandoned += last.Abandoned
		if len(res) < len(inputs) {
			st.restarts++
			fails++
			fmt.Fprintf(os.Stderr, "h13: the core process ended while creating environment input %d (attempt %d); restarting it\n", len(res), fails)
			if fails >= 3 {
				b, _ := json.Marshal(inputs[len(res)])
				fmt.Fprintf(os.Stderr, "h13: environment input %d kills or blocks the core every time: %s\n", len(res), b)
				os.Exit(3)
			}
		}
	}
	return res
}

func main() {
	child := flag.Bool("child", false, "internal: create the environments given on stdin")
	o := gen.ParseFlags()
	if *child {
		childMain()
		return
	}
	if os.Getenv("SIM_VERBOSE") == "" {
		logrus.SetOutput(io.Discard) // warnings of core/task/channel about the generated declarations
	}
	// jobs in case order: a pure case is evaluated at once, an environment is a placeholder
	type job struct {
		pure *gen.Case
		env  *envInput
	}
	var jobs []job
	addEnv := func(in envInput) { jobs = append(jobs, job{env: &in}) }
	if o.Replay != "" {
		ins, kinds, err := gen.LoadReplay(o.Replay)
		if err != nil {
			panic(err)
		}
		for i, raw := range ins {
			if strings.HasPrefix(kinds[i], "env") {
				var in struct {
					Env envInput `json:"env"`
				}
				if err := json.Unmarshal(raw, &in); err != nil {
					panic(err)
				}
				addEnv(in.Env)
				continue
			}
			var in pureInput
			if err := json.Unmarshal(raw, &in); err != nil {
				panic(err)
			}
			if c, ok := replayPure(in, kinds[i]); ok {
				jobs = append(jobs, job{pure: &c})
			}
		}
	} else {
		r := gen.NewRand(o.Seed)
		rPure, rEnv := r.Fork(), r.Fork()
		for _, in := range corpus() {
			addEnv(in)
		}
		nEnv := o.N / 5
		nPure := o.N - nEnv
		for i := 0; i < nPure; i++ {
			c := genPure(rPure, i%5)
			jobs = append(jobs, job{pure: &c})
		}
		for i := 0; i < nEnv; i++ {
			if i%4 == 3 {
				addEnv(genIterEnv(rEnv))
			} else {
				addEnv(genEnv(rEnv))
			}
		}
	}
	var envIns []envInput
	for _, j := range jobs {
		if j.env != nil {
			envIns = append(envIns, *j.env)
		}
	}
	var st runStats
	var envCases []gen.Case
	if len(envIns) > 0 {
		envCases = runEnvs(envIns, &st)
	}
	var cases []gen.Case
	k := 0
	for _, j := range jobs {
		if j.pure != nil {
			cases = append(cases, *j.pure)
		} else {
			cases = append(cases, envCases[k])
			k++
		}
	}
	extra := map[string]any{}
	if len(envIns) > 0 {
		extra["environment_inputs"] = len(envIns)
		extra["environments_created"] = st.envs
		extra["deploy_retries"] = st.retries
		extra["offer_rounds_repeated"] = st.reoffers
		extra["teardowns_abandoned"] = st.abandoned
		extra["core_process_restarts"] = st.restarts
	}
	if err := gen.WriteCases(o, "C13", "From Verif Require Import Channels.", "c13_case", "report13", cases, extra); err != nil {
		panic(err)
	}
}
