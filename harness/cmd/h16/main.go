// h16: correspondence harness for C16 (the task state reported after a transition is the
// device's real state).
//
// What runs is the real executor code: executorcmd.NewClient (real gRPC client over loopback) ->
// RpcClient.doTransition (reply acceptance rule) -> transitioner.NewTransitioner(FAIRMQ|DIRECT)
// -> Commit/doConfigure/doReset, entered through the executor's message handler
// (executor.handleMessageEvent, run by the committed hook executor/zz_verif_c02.go) with a real
// executable.ControllableTask (task.go) as the active task: a MesosCommand_Transition JSON document
// goes in, and the "state"/"error" fields of the MESSAGE payload the executor sends to the core
// are what is observed.
// The peer is a simulated OCC device (an in-process pb.OccServer): the FairMQ (or OCC direct)
// state graph plus an outcome script that says, for each request actually issued, whether the
// device performs it, refuses it in place, goes to ERROR, or whether the request / the reply is
// lost (gRPC status error).  `strict` devices check the request's source state first and answer
// INVALID_ARGUMENT on a mismatch, as occ/plugin/OccFMQCommon.cxx and occ/occlib/OccServer.cxx do.
//
// Modes:
//   h16 -gen coq/gen/Gen_FairMQTable.v   exhaustive prefix-tree enumeration of every
//                                         (mode, event, source, strictness, outcome script)
//   h16 -seed .. -n .. -out ..            corpus witnesses + every leaf of that tree as a
//                                         monitored case + n sampled out-of-domain cases
//   h16 -replay FILE ...                  re-run the inputs of a replay file
//   h16 -statemap FILE                    the O2 <-> FairMQ state tables as the running code applies
//                                         them (statemap.go; run by translator 'fairmq')
package main

import (
	"context"
	"encoding/json"
	"fmt"
	"io"
	"net"
	"os"
	"sort"
	"strings"
	"sync"
	"time"

	"github.com/AliceO2Group/Control/common/controlmode"
	"github.com/AliceO2Group/Control/common/utils/uid"
	"github.com/AliceO2Group/Control/core/controlcommands"
	"github.com/AliceO2Group/Control/executor"
	"github.com/AliceO2Group/Control/executor/executable"
	"github.com/AliceO2Group/Control/executor/executorcmd"
	"github.com/AliceO2Group/Control/executor/executorcmd/transitioner"
	pb "github.com/AliceO2Group/Control/executor/protos"
	"github.com/mesos/mesos-go/api/v1/lib"
	"github.com/sirupsen/logrus"
	"google.golang.org/grpc"
	"google.golang.org/grpc/codes"
	"google.golang.org/grpc/status"

	"verif/harness/internal/gen"
)

// ---------------------------------------------------------------- simulated device

const (
	oDone = iota
	oRefused
	oErrState
	oTLost
	oTAfter
	nOutcomes
)

var outcomeCtor = []string{"Done", "Refused", "ErrState", "TLost", "TAfter"}

const (
	modeDirect = 0
	modeFairMQ = 1
)

type edge struct{ from, evt, to string }

// The device speaks its own language: these literals are the FairMQ / OCC names, NOT the
// constants of the repository (a changed constant in /repo must show up as a disagreement).
// FairMQ StateMachine transition table (intermediate auto-states collapsed as the OCC plugin does).
var fmqGraph = []edge{
	{"IDLE", "INIT DEVICE", "INITIALIZING DEVICE"},
	{"IDLE", "END", "EXITING"},
	{"INITIALIZING DEVICE", "COMPLETE INIT", "INITIALIZED"},
	{"INITIALIZED", "BIND", "BOUND"},
	{"INITIALIZED", "RESET DEVICE", "IDLE"},
	{"BOUND", "CONNECT", "DEVICE READY"},
	{"BOUND", "RESET DEVICE", "IDLE"},
	{"DEVICE READY", "INIT TASK", "READY"},
	{"DEVICE READY", "RESET DEVICE", "IDLE"},
	{"READY", "RUN", "RUNNING"},
	{"READY", "RESET TASK", "DEVICE READY"},
	{"RUNNING", "STOP", "READY"},
}

// occ/plugin/OccFMQCommon.h EXPECTED_FINAL_STATE
var fmqExpected = map[string]string{
	"INIT DEVICE": "INITIALIZING DEVICE", "COMPLETE INIT": "INITIALIZED", "BIND": "BOUND",
	"CONNECT": "DEVICE READY", "INIT TASK": "READY", "RUN": "RUNNING", "STOP": "READY",
	"RESET TASK": "DEVICE READY", "RESET DEVICE": "IDLE", "END": "EXITING", "ERROR FOUND": "ERROR",
}

// occ/occlib/OccServer.cxx processStateTransition
var directGraph = []edge{
	{"STANDBY", "CONFIGURE", "CONFIGURED"},
	{"STANDBY", "EXIT", "DONE"},
	{"CONFIGURED", "START", "RUNNING"},
	{"CONFIGURED", "RESET", "STANDBY"},
	{"CONFIGURED", "EXIT", "DONE"},
	{"RUNNING", "STOP", "CONFIGURED"},
	{"RUNNING", "PAUSE", "PAUSED"},
	{"PAUSED", "RESUME", "RUNNING"},
	{"PAUSED", "STOP", "CONFIGURED"},
	{"ERROR", "RECOVER", "STANDBY"},
	{"ERROR", "EXIT", "DONE"},
}

// occ/occlib/OccServer.h EXPECTED_FINAL_STATE
var directExpected = map[string]string{
	"CONFIGURE": "CONFIGURED", "RESET": "STANDBY", "START": "RUNNING", "STOP": "CONFIGURED",
	"EXIT": "DONE", "GO_ERROR": "ERROR", "RECOVER": "STANDBY",
}

var fmqDevStates = []string{"IDLE", "INITIALIZING DEVICE", "INITIALIZED", "BOUND", "DEVICE READY", "READY", "RUNNING", "ERROR", "EXITING"}
var directDevStates = []string{"STANDBY", "CONFIGURED", "RUNNING", "PAUSED", "ERROR", "DONE"}

func graphOf(mode int) ([]edge, map[string]string) {
	if mode == modeFairMQ {
		return fmqGraph, fmqExpected
	}
	return directGraph, directExpected
}

type rawReply struct {
	Trigger int32  `json:"trigger"`
	State   string `json:"state"`
	Evt     string `json:"evt"`
	Ok      bool   `json:"ok"`
}

type step struct {
	Evt     string `json:"evt"` // as received on the wire
	Src     string `json:"src"` // as received on the wire
	Dst     string `json:"dst"` // EventInfo.Dst given to DoTransition
	NArgs   int    `json:"nargs"`
	Before  string `json:"before"`
	Outcome int    `json:"outcome"`
	After   string `json:"after"`
	RpcErr  bool   `json:"rpcerr"`
}

type simDev struct {
	mode     int
	strict   bool
	state    string
	script   []int
	pos      int
	stop     bool // stop at script exhaustion (enumeration) instead of defaulting to Done
	hitEnd   bool
	steps    []step
	override *rawReply
}

func (d *simDev) handle(req *pb.TransitionRequest) (*pb.TransitionReply, error) {
	if d.override != nil {
		r := d.override
		return &pb.TransitionReply{Trigger: pb.StateChangeTrigger(r.Trigger), State: r.State, TransitionEvent: r.Evt, Ok: r.Ok}, nil
	}
	st := step{Evt: req.GetTransitionEvent(), Src: req.GetSrcState(), NArgs: len(req.GetArguments()), Before: d.state, Dst: "\x00unset"}
	o := oDone
	if d.pos < len(d.script) {
		o = d.script[d.pos]
	} else if d.stop {
		if !d.hitEnd {
			d.hitEnd = true
			st.Outcome = -1
			st.After = d.state
			st.RpcErr = true
			d.steps = append(d.steps, st) // the frontier request
		}
		return nil, status.Error(codes.Aborted, "verif: outcome script exhausted")
	}
	d.pos++
	st.Outcome = o
	if o == oTLost { // the request never reaches the device
		st.After, st.RpcErr = d.state, true
		d.steps = append(d.steps, st)
		return nil, status.Error(codes.Unavailable, "verif: request lost")
	}
	if d.strict && st.Src != d.state { // OccFMQCommon.cxx / OccServer.cxx: source state check
		st.After, st.RpcErr = d.state, true
		d.steps = append(d.steps, st)
		return nil, status.Error(codes.InvalidArgument, "transition not possible: state mismatch: source: "+st.Src+" current: "+d.state)
	}
	graph, expected := graphOf(d.mode)
	tgt, valid := "", false
	for _, e := range graph {
		if e.from == d.state && e.evt == st.Evt {
			tgt, valid = e.to, true
		}
	}
	if valid {
		switch o {
		case oDone, oTAfter:
			d.state = tgt
		case oErrState:
			d.state = "ERROR"
		}
	}
	st.After = d.state
	if valid && o == oTAfter { // performed, reply lost
		st.RpcErr = true
		d.steps = append(d.steps, st)
		return nil, status.Error(codes.Unavailable, "verif: reply lost")
	}
	d.steps = append(d.steps, st)
	exp, known := expected[st.Evt]
	ok := known && d.state == exp
	trg := pb.StateChangeTrigger_DEVICE_INTENTIONAL
	if d.state == "ERROR" {
		trg = pb.StateChangeTrigger_DEVICE_ERROR
	} else if ok {
		trg = pb.StateChangeTrigger_EXECUTOR
	}
	return &pb.TransitionReply{Trigger: trg, State: d.state, TransitionEvent: st.Evt, Ok: ok}, nil
}

type occSrv struct {
	pb.UnimplementedOccServer
	mu  sync.Mutex
	dev *simDev
}

func (s *occSrv) Transition(ctx context.Context, req *pb.TransitionRequest) (*pb.TransitionReply, error) {
	s.mu.Lock()
	defer s.mu.Unlock()
	if s.dev == nil {
		return nil, status.Error(codes.FailedPrecondition, "verif: no device")
	}
	return s.dev.handle(req)
}

// ---------------------------------------------------------------- the real stack

type stack struct {
	srv     *occSrv
	clients map[int]*executorcmd.RpcClient
	trans   map[int]transitioner.Transitioner // wrapped: records EventInfo, then real doTransition
	tasks   map[int]executable.Task           // real ControllableTask (executable.NewTask) over trans[mode]
	seen    []transitioner.EventInfo
	target  controlcommands.MesosCommandTarget
	envId   uid.ID
}

func newStack() *stack {
	logrus.SetOutput(io.Discard)
	lis, err := net.Listen("tcp", "127.0.0.1:0")
	if err != nil {
		fmt.Fprintln(os.Stderr, "h16: cannot listen on loopback:", err)
		os.Exit(2)
	}
	s := &stack{srv: &occSrv{}, clients: map[int]*executorcmd.RpcClient{}, trans: map[int]transitioner.Transitioner{}, tasks: map[int]executable.Task{}}
	g := grpc.NewServer()
	pb.RegisterOccServer(g, s.srv)
	go func() { _ = g.Serve(lis) }()
	port := uint64(lis.Addr().(*net.TCPAddr).Port)
	quiet := logrus.New()
	quiet.SetOutput(io.Discard)
	for _, m := range []int{modeDirect, modeFairMQ} {
		cm := controlmode.DIRECT
		if m == modeFairMQ {
			cm = controlmode.FAIRMQ
		}
		c := executorcmd.NewClient(port, cm, executorcmd.ProtobufTransport, quiet.WithField("id", "verif-task"))
		if c == nil {
			fmt.Fprintln(os.Stderr, "h16: executorcmd.NewClient could not connect to the simulated device")
			os.Exit(2)
		}
		// the real reply-acceptance function (RpcClient.doTransition) as installed by NewClient
		var inner transitioner.DoTransitionFunc
		switch t := c.Transitioner.(type) {
		case *transitioner.FairMQ:
			if m != modeFairMQ {
				fmt.Fprintln(os.Stderr, "h16: NewTransitioner(DIRECT) returned a FairMQ transitioner")
				os.Exit(2)
			}
			inner = t.DoTransition
		case *transitioner.Direct:
			if m != modeDirect {
				fmt.Fprintln(os.Stderr, "h16: NewTransitioner(FAIRMQ) returned a Direct transitioner")
				os.Exit(2)
			}
			inner = t.DoTransition
		default:
			fmt.Fprintln(os.Stderr, "h16: unexpected transitioner type")
			os.Exit(2)
		}
		s.clients[m] = c
		s.trans[m] = transitioner.NewTransitioner(cm, func(ei transitioner.EventInfo) (string, error) {
			s.seen = append(s.seen, ei)
			return inner(ei)
		})
		s.tasks[m] = newControllableTask(cm, &executorcmd.RpcClient{OccClient: c.OccClient, Transitioner: s.trans[m], Log: c.Log})
	}
	s.target = controlcommands.MesosCommandTarget{
		AgentId:    mesos.AgentID{Value: "agent-1"},
		ExecutorId: mesos.ExecutorID{Value: "executor-1"},
		TaskId:     mesos.TaskID{Value: verifTaskId},
	}
	s.envId = uid.New()
	return s
}

type runIn struct {
	Mode   int    `json:"mode"`
	Strict bool   `json:"strict"`
	Evt    string `json:"evt"`
	Src    string `json:"src"`
	Dst    string `json:"dst"`
	NArgs  int    `json:"nargs"`
	Dev0   string `json:"dev0"`
	Script []int  `json:"script"`
}

type runObs struct {
	Final string `json:"final"`
	Err   bool   `json:"err"`
	Dev   string `json:"dev"`
	Log   []step `json:"log"`
	Note  string `json:"note,omitempty"`
}

// commit enters the code the way ControllableTask.UnmarshalTransition/Transition do.
func (s *stack) commit(mode int, evt, src, dst string, nargs int) (string, bool, string) {
	args := controlcommands.PropertyMap{}
	for i := 0; i < nargs; i++ {
		args[fmt.Sprintf("key%d", i)] = fmt.Sprintf("value%d", i)
	}
	mc := controlcommands.NewMesosCommand_Transition(s.envId, []controlcommands.MesosCommandTarget{s.target}, src, evt, dst,
		controlcommands.PropertyMapsMap{s.target: args})
	single := mc.MakeSingleTarget(s.target)
	data, err := json.Marshal(single)
	if err != nil {
		panic(err)
	}
	// the executor's own message handler (handleMessageEvent, through the committed verif hook of
	// package executor) with the real ControllableTask as the only active task: what comes back is
	// the payload of the MESSAGE call the executor makes to the core
	sent, herr := executor.VerifC02HandleMessage(s.target.ExecutorId.Value,
		map[string]executable.Task{verifTaskId: s.tasks[mode]}, data, 10*time.Second, 0)
	if herr != nil {
		return "", true, "the message handler refused the command: " + herr.Error()
	}
	if len(sent) != 1 {
		return "", true, fmt.Sprintf("the executor sent %d MESSAGE calls in answer to a transition command", len(sent))
	}
	var back struct {
		Name   string `json:"name"`
		State  string `json:"state"`
		Error  string `json:"error"`
		TaskId string `json:"taskId"`
	}
	if err := json.Unmarshal(sent[0], &back); err != nil {
		return "", true, "the MESSAGE sent to the core is not a JSON document"
	}
	note := ""
	if back.TaskId != verifTaskId {
		note = "the response names another task"
	}
	return back.State, back.Error != "", note
}

func (s *stack) run(in runIn, stop bool) (runObs, bool) {
	d := &simDev{mode: in.Mode, strict: in.Strict, state: in.Dev0, script: in.Script, stop: stop}
	s.srv.mu.Lock()
	s.srv.dev = d
	s.srv.mu.Unlock()
	s.seen = s.seen[:0]
	final, isErr, note := s.commit(in.Mode, in.Evt, in.Src, in.Dst, in.NArgs)
	s.srv.mu.Lock()
	s.srv.dev = nil
	s.srv.mu.Unlock()
	steps := d.steps
	for i := range steps {
		if i < len(s.seen) {
			steps[i].Dst = s.seen[i].Dst
			if s.seen[i].Evt != steps[i].Evt || s.seen[i].Src != steps[i].Src {
				note = "wire request differs from EventInfo"
			}
		}
	}
	if len(s.seen) != len(steps) && !d.hitEnd {
		note = fmt.Sprintf("DoTransition called %d times, device saw %d requests", len(s.seen), len(steps))
	}
	if steps == nil {
		steps = []step{}
	}
	return runObs{Final: final, Err: isErr, Dev: d.state, Log: steps, Note: note}, d.hitEnd
}

func (s *stack) reply(evt, src, dst string, r rawReply) (string, bool) {
	d := &simDev{mode: modeDirect, state: src, override: &r}
	s.srv.mu.Lock()
	s.srv.dev = d
	s.srv.mu.Unlock()
	s.seen = s.seen[:0]
	final, isErr, _ := s.commit(modeDirect, evt, src, dst, 0)
	return final, isErr
}

// ---------------------------------------------------------------- domain

var o2States = []string{"STANDBY", "CONFIGURED", "RUNNING", "ERROR", "DONE"}
var fmqOfO2 = map[string]string{"STANDBY": "IDLE", "CONFIGURED": "READY", "RUNNING": "RUNNING", "ERROR": "ERROR", "DONE": "EXITING"}

type evtSpec struct{ evt, dst string }

// the task state machine's events and their destinations (core/task/sm, OccServer.h), plus one
// event that does not exist (Commit's default branch)
var events = []evtSpec{
	{"START", "RUNNING"}, {"STOP", "CONFIGURED"}, {"CONFIGURE", "CONFIGURED"}, {"RESET", "STANDBY"},
	{"EXIT", "DONE"}, {"RECOVER", "STANDBY"}, {"GO_ERROR", "ERROR"}, {"BOGUS", "STANDBY"},
}

func devStateOf(mode int, o2 string) string {
	if mode == modeFairMQ {
		return fmqOfO2[o2]
	}
	return o2
}

func domain() []runIn {
	var roots []runIn
	for _, mode := range []int{modeFairMQ, modeDirect} {
		for _, e := range events {
			for _, src := range o2States {
				for _, strict := range []bool{false, true} {
					roots = append(roots, runIn{Mode: mode, Strict: strict, Evt: e.evt, Src: src, Dst: e.dst, NArgs: 1,
						Dev0: devStateOf(mode, src), Script: []int{}})
				}
			}
		}
	}
	return roots
}

// ---------------------------------------------------------------- prefix tree

type tree struct {
	leaf     bool
	final    string
	err      bool
	dev      string
	req      step // node: the request issued at this point (evt, src, dst, nargs, before)
	children []child
}

type child struct {
	after  string
	rpcerr bool
	t      *tree
}

type leafRun struct {
	in  runIn
	obs runObs
}

func (s *stack) build(root runIn, prefix []int, leaves *[]leafRun, depth int) (*tree, []step) {
	if depth > 12 {
		fmt.Fprintln(os.Stderr, "h16: more than 12 requests in one transition; refusing to enumerate")
		os.Exit(3)
	}
	in := root
	in.Script = append([]int{}, prefix...)
	obs, hitEnd := s.run(in, true)
	if !hitEnd {
		if obs.Note != "" {
			fmt.Fprintf(os.Stderr, "h16: %s on %+v\n", obs.Note, in)
			os.Exit(3)
		}
		*leaves = append(*leaves, leafRun{in, obs})
		return &tree{leaf: true, final: obs.Final, err: obs.Err, dev: obs.Dev}, obs.Log
	}
	n := &tree{req: obs.Log[len(prefix)]}
	for o := 0; o < nOutcomes; o++ {
		t, log := s.build(root, append(append([]int{}, prefix...), o), leaves, depth+1)
		st := log[len(prefix)]
		n.children = append(n.children, child{st.After, st.RpcErr, t})
	}
	return n, obs.Log
}

// ---------------------------------------------------------------- Coq printing

type pool struct {
	idx   map[string]int
	names []string
}

func (p *pool) ref(s string) string {
	if s == "" {
		return "[]"
	}
	if i, ok := p.idx[s]; ok {
		return fmt.Sprintf("p%d", i)
	}
	if p.idx == nil {
		p.idx = map[string]int{}
	}
	p.idx[s] = len(p.names)
	p.names = append(p.names, s)
	return fmt.Sprintf("p%d", len(p.names)-1)
}

func (p *pool) defs() string {
	var b strings.Builder
	for i, s := range p.names {
		fmt.Fprintf(&b, "Definition p%d : str := %s. (* %q *)\n", i, gen.Str(s), s)
	}
	return b.String()
}

func rootTerm(p *pool, in runIn) string {
	return fmt.Sprintf("(Root %d %s %s %s %s %d %s)", in.Mode, gen.Bool(in.Strict), p.ref(in.Evt), p.ref(in.Src), p.ref(in.Dst), in.NArgs, p.ref(in.Dev0))
}

func eiTerm(p *pool, st step) string {
	return fmt.Sprintf("(EI %s %s %s %d)", p.ref(st.Evt), p.ref(st.Src), p.ref(st.Dst), st.NArgs)
}

func treeTerm(p *pool, t *tree, b *strings.Builder) {
	if t.leaf {
		fmt.Fprintf(b, "Leaf %s %s %s", p.ref(t.final), gen.Bool(t.err), p.ref(t.dev))
		return
	}
	fmt.Fprintf(b, "Node %s %s [", eiTerm(p, t.req), p.ref(t.req.Before))
	for i, c := range t.children {
		if i > 0 {
			b.WriteString("; ")
		}
		fmt.Fprintf(b, "(%s, %s, ", p.ref(c.after), gen.Bool(c.rpcerr))
		treeTerm(p, c.t, b)
		b.WriteString(")")
	}
	b.WriteString("]")
}

func scriptTerm(sc []int) string {
	items := make([]string, len(sc))
	for i, o := range sc {
		if o < 0 || o >= nOutcomes {
			o = oDone
		}
		items[i] = outcomeCtor[o]
	}
	return gen.List(items)
}

func obsTerm(p *pool, o runObs) string {
	items := make([]string, len(o.Log))
	for i, st := range o.Log {
		oc := st.Outcome
		if oc < 0 || oc >= nOutcomes {
			oc = oDone
		}
		items[i] = fmt.Sprintf("St %s %s %s %s %s", eiTerm(p, st), p.ref(st.Before), outcomeCtor[oc], p.ref(st.After), gen.Bool(st.RpcErr))
	}
	final := o.Final
	if o.Note != "" { // make harness-level inconsistencies visible as a correspondence mismatch
		final = "\x00" + o.Note
	}
	return fmt.Sprintf("(Obs %s %s %s %s)", p.ref(final), gen.Bool(o.Err), p.ref(o.Dev), gen.List(items))
}

func runCase(p *pool, kind string, in runIn, o runObs) gen.Case {
	term := fmt.Sprintf("CRun %s %s %s", rootTerm(p, in), scriptTerm(in.Script), obsTerm(p, o))
	return gen.Case{Term: term, Kind: kind, Input: in, Obs: o}
}

type replyIn struct {
	Evt   string   `json:"evt"`
	Src   string   `json:"src"`
	Dst   string   `json:"dst"`
	Reply rawReply `json:"reply"`
}

func replyCase(p *pool, s *stack, in replyIn) gen.Case {
	final, isErr := s.reply(in.Evt, in.Src, in.Dst, in.Reply)
	term := fmt.Sprintf("CReply (EI %s %s %s 0) (Reply %d %s %s %s) %s %s", p.ref(in.Evt), p.ref(in.Src), p.ref(in.Dst),
		in.Reply.Trigger, p.ref(in.Reply.State), p.ref(in.Reply.Evt), gen.Bool(in.Reply.Ok), p.ref(final), gen.Bool(isErr))
	return gen.Case{Term: term, Kind: "reply", Input: in, Obs: map[string]any{"final": final, "err": isErr}}
}

// ---------------------------------------------------------------- -gen

func genTable(s *stack, path string) {
	p := &pool{}
	var rows []string
	var leaves []leafRun
	nodes := 0
	var count func(t *tree)
	count = func(t *tree) {
		nodes++
		for _, c := range t.children {
			count(c.t)
		}
	}
	for _, root := range domain() {
		t, _ := s.build(root, nil, &leaves, 0)
		count(t)
		var b strings.Builder
		b.WriteString("  (" + rootTerm(p, root) + ",\n   ")
		treeTerm(p, t, &b)
		b.WriteString(")")
		rows = append(rows, b.String())
	}
	var out strings.Builder
	out.WriteString("(* regenerated on every run by `h16 -gen`: exhaustive enumeration, on the running Go code\n" +
		"   (executor.handleMessageEvent -> ControllableTask.UnmarshalTransition/Transition ->\n" +
		"   ExecutorCommand_Transition.Commit ->\n" +
		"   transitioner.Commit -> RpcClient.doTransition against the simulated device; observed: the\n" +
		"   state/error of the MESSAGE payload sent to the core), of every (mode, event, source state, strictness) and, as a prefix tree, every outcome\n" +
		"   script: one outcome per request that is actually issued.  Do not edit. *)\n")
	out.WriteString("From Verif Require Import Common FairMQ.\nOpen Scope N_scope.\n")
	out.WriteString(p.defs())
	fmt.Fprintf(&out, "(* %d roots, %d tree nodes, %d leaves (complete executions) *)\n", len(rows), nodes, len(leaves))
	out.WriteString("Definition fmq_table : list (root * otree) := [\n")
	out.WriteString(strings.Join(rows, ";\n"))
	out.WriteString("\n].\n")
	old, err := os.ReadFile(path)
	if err == nil && string(old) == out.String() {
		return
	}
	if err := os.WriteFile(path, []byte(out.String()), 0o644); err != nil {
		fmt.Fprintln(os.Stderr, err)
		os.Exit(3)
	}
}

// ---------------------------------------------------------------- sampled (out-of-domain) inputs

var oddStates = []string{"", "PAUSED", "INITIALIZED", "BOGUS", "standby", "IDLE", "READY"}

func genOutcome(r *gen.Rand) int {
	// Done is the common case so that long paths are reached; the four failures share the rest
	if r.Chance(1, 2) {
		return oDone
	}
	return r.Range(1, nOutcomes-1)
}

func sampleRun(r *gen.Rand) runIn {
	mode := modeFairMQ
	if r.Chance(1, 4) {
		mode = modeDirect
	}
	e := events[r.Intn(len(events))]
	in := runIn{Mode: mode, Strict: r.Chance(1, 2), Evt: e.evt, Dst: e.dst, NArgs: r.Intn(3)}
	in.Src = o2States[r.Intn(len(o2States))]
	// aim at the multi-step sequences
	if r.Chance(1, 2) {
		switch r.Intn(3) {
		case 0:
			in.Evt, in.Dst, in.Src = "CONFIGURE", "CONFIGURED", "STANDBY"
		case 1:
			in.Evt, in.Dst, in.Src = "RESET", "STANDBY", "CONFIGURED"
		case 2:
			in.Evt, in.Dst, in.Src = "EXIT", "DONE", "CONFIGURED"
		}
	}
	in.Dev0 = devStateOf(mode, in.Src)
	switch r.Intn(6) {
	case 0: // device is not where the executor believes it is
		if mode == modeFairMQ {
			in.Dev0 = fmqDevStates[r.Intn(len(fmqDevStates))]
		} else {
			in.Dev0 = directDevStates[r.Intn(len(directDevStates))]
		}
	case 1: // destination that does not belong to the event
		in.Dst = o2States[r.Intn(len(o2States))]
	case 2: // source unknown to the state map
		in.Src = oddStates[r.Intn(len(oddStates))]
	case 3:
		in.Dst = oddStates[r.Intn(len(oddStates))]
	}
	n := r.Range(0, 9)
	in.Script = make([]int, n)
	for i := range in.Script {
		in.Script[i] = genOutcome(r)
	}
	return in
}

func sampleReply(r *gen.Rand) replyIn {
	e := events[r.Intn(7)]
	in := replyIn{Evt: e.evt, Src: o2States[r.Intn(len(o2States))], Dst: e.dst}
	// start from the reply that would be accepted, then break at most two of the four clauses
	rep := rawReply{Trigger: 0, State: in.Dst, Evt: in.Evt, Ok: true}
	for k := r.Intn(3); k > 0; k-- {
		switch r.Intn(4) {
		case 0:
			rep.Ok = false
		case 1:
			rep.Trigger = int32(r.Range(1, 2))
		case 2:
			rep.Evt = events[r.Intn(len(events))].evt
		case 3:
			rep.State = append(append([]string{}, o2States...), "", "PAUSED")[r.Intn(7)]
		}
	}
	in.Reply = rep
	return in
}

// the refutation witnesses of coq/props/C16.v, run first
func corpus() []runIn {
	return []runIn{
		// C16_image_refuted: INIT TASK performed, reply lost: device READY, report ""
		{Mode: modeFairMQ, Strict: false, Evt: "CONFIGURE", Src: "STANDBY", Dst: "CONFIGURED", NArgs: 1, Dev0: "IDLE",
			Script: []int{oDone, oDone, oDone, oDone, oTAfter}},
		// regression case of the repaired finding C16-b (1): BIND refused, roll-back accepted; CONNECT used
		// to be sent with the stale source BOUND (report ""), now STANDBY is reported after 4 requests
		{Mode: modeFairMQ, Strict: true, Evt: "CONFIGURE", Src: "STANDBY", Dst: "CONFIGURED", NArgs: 1, Dev0: "IDLE",
			Script: []int{oDone, oDone, oRefused, oDone, oDone}},
		// regression case of C16-b (2): EXIT from CONFIGURED used to send END with source READY after the
		// reset phase (rejected by a source-checking device), now END is requested from IDLE
		{Mode: modeFairMQ, Strict: true, Evt: "EXIT", Src: "CONFIGURED", Dst: "DONE", NArgs: 1, Dev0: "READY",
			Script: []int{oDone, oDone, oDone}},
		// regression case of the repaired finding C16-c: GO_ERROR used to be answered with success and
		// the source state, now with an error
		{Mode: modeFairMQ, Strict: false, Evt: "GO_ERROR", Src: "RUNNING", Dst: "ERROR", NArgs: 1, Dev0: "RUNNING", Script: []int{}},
		// (unknown state, error) outcomes of EXIT must reach the core as they are (seed C16-6: the layer
		// above the transitioners turned them into DONE + success): END lost on the way to a FairMQ device,
		{Mode: modeFairMQ, Strict: false, Evt: "EXIT", Src: "STANDBY", Dst: "DONE", NArgs: 1, Dev0: "IDLE", Script: []int{oTLost}},
		// EXIT rejected by a directly controlled device that is not where the executor believes (gRPC status),
		{Mode: modeDirect, Strict: true, Evt: "EXIT", Src: "STANDBY", Dst: "DONE", NArgs: 0, Dev0: "RUNNING", Script: []int{oDone}},
		// FairMQ EXIT from CONFIGURED stuck in DEVICE READY (no O2 image): RESET DEVICE and the roll-back refused
		{Mode: modeFairMQ, Strict: true, Evt: "EXIT", Src: "CONFIGURED", Dst: "DONE", NArgs: 1, Dev0: "READY",
			Script: []int{oDone, oRefused, oRefused}},
	}
}

// ---------------------------------------------------------------- main

func main() {
	if len(os.Args) >= 3 && os.Args[1] == "-statemap" {
		logrus.SetOutput(io.Discard)
		dumpStateMap(os.Args[2])
		return
	}
	if len(os.Args) >= 3 && os.Args[1] == "-gen" {
		s := newStack()
		genTable(s, os.Args[2])
		return
	}
	o := gen.ParseFlags()
	s := newStack()
	p := &pool{}
	var cases []gen.Case
	extra := map[string]any{}
	if o.Replay != "" {
		ins, kinds, err := gen.LoadReplay(o.Replay)
		if err != nil {
			panic(err)
		}
		for i, raw := range ins {
			if kinds[i] == "reply" {
				var in replyIn
				if err := json.Unmarshal(raw, &in); err != nil {
					panic(err)
				}
				cases = append(cases, replyCase(p, s, in))
				continue
			}
			var in runIn
			if err := json.Unmarshal(raw, &in); err != nil {
				panic(err)
			}
			obs, _ := s.run(in, false)
			cases = append(cases, runCase(p, kinds[i], in, obs))
		}
	} else {
		for _, in := range corpus() {
			obs, _ := s.run(in, false)
			cases = append(cases, runCase(p, "witness", in, obs))
		}
		// every complete execution of the exhaustive domain, monitored
		var leaves []leafRun
		for _, root := range domain() {
			s.build(root, nil, &leaves, 0)
		}
		for _, l := range leaves {
			kind := "fairmq/" + l.in.Evt
			if l.in.Mode == modeDirect {
				kind = "direct/" + l.in.Evt
			}
			cases = append(cases, runCase(p, kind, l.in, l.obs))
		}
		extra["exhaustive_leaves"] = len(leaves)
		hist := map[int]int{}
		for _, l := range leaves {
			hist[len(l.obs.Log)]++
		}
		hk := []int{}
		for k := range hist {
			hk = append(hk, k)
		}
		sort.Ints(hk)
		hs := []string{}
		for _, k := range hk {
			hs = append(hs, fmt.Sprintf("%d requests: %d", k, hist[k]))
		}
		extra["requests_per_execution"] = hs
		r := gen.NewRand(o.Seed)
		rRun, rRep := r.Fork(), r.Fork()
		nRep := o.N / 3
		for i := 0; i < o.N-nRep; i++ {
			in := sampleRun(rRun)
			obs, _ := s.run(in, false)
			cases = append(cases, runCase(p, "sampled", in, obs))
		}
		for i := 0; i < nRep; i++ {
			cases = append(cases, replyCase(p, s, sampleReply(rRep)))
		}
	}
	header := "From Verif Require Import Common FairMQ.\nOpen Scope N_scope.\n" + p.defs()
	if err := gen.WriteCases(o, "C16", header, "c16_case", "report16", cases, extra); err != nil {
		panic(err)
	}
}
