// The layer above the transitioners: the executor answers a transition command of a FairMQ or
// directly controlled task through executable.ControllableTask (UnmarshalTransition + Transition,
// called by the MesosCommand_Transition arm of executor/handlers.go, which marshals the response
// and sends it to the core).  h16 drives exactly these two methods of a task built by the exported
// executable.NewTask, so that what the property is evaluated on is the state / error of the
// response document, not the return values of Commit.
//
// The task's RPC client is normally installed by Launch (which starts the real process); here it is
// installed directly.  No hook file: the field is found BY TYPE (*executorcmd.RpcClient) with
// reflection, whatever it is called and wherever it is embedded.
package main

import (
	"encoding/json"
	"fmt"
	"os"
	"reflect"
	"unsafe"

	"github.com/AliceO2Group/Control/common"
	"github.com/AliceO2Group/Control/common/controlmode"
	"github.com/AliceO2Group/Control/common/event"
	"github.com/AliceO2Group/Control/common/utils/uid"
	"github.com/AliceO2Group/Control/executor/executable"
	"github.com/AliceO2Group/Control/executor/executorcmd"
	"github.com/mesos/mesos-go/api/v1/lib"
)

const verifTaskId = "verif-task"

func rpcFields(v reflect.Value, want reflect.Type, out *[]reflect.Value) {
	if v.Kind() != reflect.Struct {
		return
	}
	for i := 0; i < v.NumField(); i++ {
		f := v.Field(i)
		if f.Type() == want {
			*out = append(*out, f)
		} else if f.Kind() == reflect.Struct {
			rpcFields(f, want, out)
		}
	}
}

func newControllableTask(cm controlmode.ControlMode, rpc *executorcmd.RpcClient) executable.Task {
	shell, value := false, "verif-device"
	tci := common.TaskCommandInfo{ControlMode: cm}
	tci.Shell, tci.Value = &shell, &value
	data, err := json.Marshal(tci)
	if err != nil {
		panic(err)
	}
	ti := mesos.TaskInfo{Name: "verif", TaskID: mesos.TaskID{Value: verifTaskId}, Data: data}
	t := executable.NewTask(ti,
		func(uid.ID, mesos.TaskState, string) {},
		func(uid.ID, event.DeviceEvent) {},
		func([]byte) {})
	if t == nil {
		fmt.Fprintln(os.Stderr, "h16: executable.NewTask returned nil for control mode", cm.String())
		os.Exit(2)
	}
	v := reflect.ValueOf(t)
	if v.Kind() != reflect.Ptr || v.Elem().Kind() != reflect.Struct {
		fmt.Fprintln(os.Stderr, "h16: executable.NewTask did not return a pointer to a struct")
		os.Exit(2)
	}
	var fs []reflect.Value
	rpcFields(v.Elem(), reflect.TypeOf(rpc), &fs)
	if len(fs) != 1 {
		fmt.Fprintf(os.Stderr, "h16: the task built for control mode %s has %d fields of type *executorcmd.RpcClient, expected 1\n", cm.String(), len(fs))
		os.Exit(2)
	}
	reflect.NewAt(fs[0].Type(), unsafe.Pointer(fs[0].UnsafeAddr())).Elem().Set(reflect.ValueOf(rpc))
	return t
}
