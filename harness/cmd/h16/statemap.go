// h16 -statemap FILE: the O2 <-> FairMQ state correspondence of the FairMQ transitioner, obtained
// by EXECUTING the code (no hook file, exported API only):
//
//   - the transitioner is built by transitioner.NewTransitioner(controlmode.FAIRMQ, fn), fn being a
//     recording DoTransitionFunc;
//   - the probe universe is: every string found, by read-only reflection, in any map / slice /
//     array of strings reachable from the value the constructor returned (so every key and value
//     of the lookup tables as built by NewFairMQTransitioner, whatever the fields are called and
//     however they were filled), plus the O2 task states, the FairMQ device states, the strings of
//     oddStates and "";
//   - forward(x) = the source state of the request Commit("START", x, x, nil) hands to
//     DoTransition (must equal the destination state of the same request);
//   - inverse(y) = the state Commit("START", ..) reports when DoTransition answers y, which must
//     equal FromDeviceState(y).
//
// The translator 'fairmq' (harness/cmd/translate/tr_fairmq.go) runs this mode, checks that the
// inverse table is exactly the converse of the forward table and emits the forward table as
// Gen_FairMQ.state_map.  Renamed fields/receivers/helpers, tables filled in loops, constants,
// switch-based lookups etc. all give the same dump; a changed, missing or extra entry does not.
package main

import (
	"encoding/json"
	"fmt"
	"os"
	"reflect"
	"sort"

	"github.com/AliceO2Group/Control/common/controlmode"
	"github.com/AliceO2Group/Control/executor/executorcmd/transitioner"
	pb "github.com/AliceO2Group/Control/executor/protos"
)

type stateMapDump struct {
	Forward   [][2]string      `json:"forward"`   // O2 state -> FairMQ state, non-empty images only, sorted by key
	Inverse   [][2]string      `json:"inverse"`   // FairMQ state -> O2 state, non-empty images only, sorted by key
	Universe  []string         `json:"universe"`  // every string probed
	Reflected []string         `json:"reflected"` // the part of the universe found in the constructed value
	Tables    int              `json:"tables"`    // string tables found in the constructed value
	Triggers  map[string]int32 `json:"triggers"`  // pb.StateChangeTrigger values
	Notes     []string         `json:"notes"`     // inconsistencies between the two ways of observing a lookup
}

// collectStrings walks v read-only and gathers every string held in a map, slice or array
// (keys and elements); plain string fields are taken too.  Unexported fields are fine:
// Field/MapRange/Index/String do not need an exported value.
func collectStrings(v reflect.Value, depth int, seen map[uintptr]bool, out map[string]bool, tables *int) {
	if depth > 8 || !v.IsValid() {
		return
	}
	switch v.Kind() {
	case reflect.String:
		out[v.String()] = true
	case reflect.Ptr:
		if v.IsNil() || seen[v.Pointer()] {
			return
		}
		seen[v.Pointer()] = true
		collectStrings(v.Elem(), depth+1, seen, out, tables)
	case reflect.Interface:
		if !v.IsNil() {
			collectStrings(v.Elem(), depth+1, seen, out, tables)
		}
	case reflect.Struct:
		for i := 0; i < v.NumField(); i++ {
			collectStrings(v.Field(i), depth+1, seen, out, tables)
		}
	case reflect.Map:
		if v.IsNil() {
			return
		}
		if v.Type().Key().Kind() == reflect.String || v.Type().Elem().Kind() == reflect.String {
			*tables++
		}
		it := v.MapRange()
		for it.Next() {
			collectStrings(it.Key(), depth+1, seen, out, tables)
			collectStrings(it.Value(), depth+1, seen, out, tables)
		}
	case reflect.Slice, reflect.Array:
		if v.Kind() == reflect.Slice && v.IsNil() {
			return
		}
		if v.Type().Elem().Kind() == reflect.String {
			*tables++
		}
		for i := 0; i < v.Len(); i++ {
			collectStrings(v.Index(i), depth+1, seen, out, tables)
		}
	}
}

func dumpStateMap(path string) {
	var seen []transitioner.EventInfo
	answer := ""
	fn := func(ei transitioner.EventInfo) (string, error) {
		seen = append(seen, ei)
		return answer, nil
	}
	t := transitioner.NewTransitioner(controlmode.FAIRMQ, fn)
	if _, ok := t.(*transitioner.FairMQ); !ok {
		fmt.Fprintln(os.Stderr, "h16 -statemap: NewTransitioner(FAIRMQ) did not return a FairMQ transitioner")
		os.Exit(2)
	}
	d := stateMapDump{Triggers: map[string]int32{
		"EXECUTOR":           int32(pb.StateChangeTrigger_EXECUTOR),
		"DEVICE_INTENTIONAL": int32(pb.StateChangeTrigger_DEVICE_INTENTIONAL),
		"DEVICE_ERROR":       int32(pb.StateChangeTrigger_DEVICE_ERROR),
	}, Notes: []string{}}

	refl := map[string]bool{}
	collectStrings(reflect.ValueOf(t), 0, map[uintptr]bool{}, refl, &d.Tables)
	uni := map[string]bool{"": true}
	for s := range refl {
		uni[s] = true
		d.Reflected = append(d.Reflected, s)
	}
	sort.Strings(d.Reflected)
	for _, l := range [][]string{o2States, fmqDevStates, directDevStates, oddStates} {
		for _, s := range l {
			uni[s] = true
		}
	}
	for s := range uni {
		d.Universe = append(d.Universe, s)
	}
	sort.Strings(d.Universe)

	for _, x := range d.Universe {
		// forward: what is requested from the device for the O2 state x
		seen, answer = seen[:0], ""
		_, _ = t.Commit("START", x, x, nil)
		if len(seen) != 1 {
			d.Notes = append(d.Notes, fmt.Sprintf("Commit(START,%q,%q) issued %d requests instead of 1", x, x, len(seen)))
			continue
		}
		if seen[0].Src != seen[0].Dst {
			d.Notes = append(d.Notes, fmt.Sprintf("Commit(START,%q,%q): request source %q differs from destination %q", x, x, seen[0].Src, seen[0].Dst))
		}
		if seen[0].Src != "" {
			d.Forward = append(d.Forward, [2]string{x, seen[0].Src})
		}
		// inverse: what is reported when the device answers x
		seen, answer = seen[:0], x
		viaCommit, _ := t.Commit("START", "RUNNING", "RUNNING", nil)
		viaPublic := t.FromDeviceState(x)
		if viaCommit != viaPublic {
			d.Notes = append(d.Notes, fmt.Sprintf("device state %q: Commit reports %q, FromDeviceState %q", x, viaCommit, viaPublic))
		}
		if viaCommit != "" {
			d.Inverse = append(d.Inverse, [2]string{x, viaCommit})
		}
	}
	out, err := json.MarshalIndent(d, "", " ")
	if err != nil {
		panic(err)
	}
	if err := os.WriteFile(path, append(out, '\n'), 0o644); err != nil {
		fmt.Fprintln(os.Stderr, "h16 -statemap:", err)
		os.Exit(2)
	}
}
