// temporary probe
package main

import (
	"fmt"
	"os"
	"time"

	"github.com/AliceO2Group/Control/common/utils/uid"
	"github.com/AliceO2Group/Control/core/integration"
	"verif/harness/internal/simcore"
	"verif/harness/internal/vplugin"
)

const wf = `name: probe
defaults:
  deploy_timeout: 5s
roles:
  - name: "t1"
    task:
      load: basic1
  - name: "t2"
    task:
      load: direct1
`
const basic1 = `name: basic1
control:
  mode: basic
wants:
  cpu: 0.1
  memory: 64
command:
  env: []
  shell: true
  value: "sleep 1000"
`
const direct1 = `name: direct1
control:
  mode: direct
wants:
  cpu: 0.1
  memory: 64
bind:
  - name: out
    type: push
    addressing: tcp
command:
  env: []
  shell: true
  value: "sleep 1000"
`

func dump(s *simcore.Sim, from int) int {
	cs := s.CallsSnapshot()
	for _, c := range cs[from:] {
		n := ""
		if c.Msg != nil {
			n = c.Msg.Name + " " + c.Msg.Event
		}
		fmt.Println(c.Seq, c.Type, c.FwID, c.Offer, len(c.Tasks), c.Kill, n)
	}
	return len(cs)
}

func main() {
	rec := vplugin.NewRecorder()
	s, err := simcore.New(simcore.Options{
		Plugins:     map[string]integration.NewFunc{"verif": vplugin.New(rec)},
		WorkDir:     "/verif/build/sim/c18probe",
		Workflows:   map[string]string{"probe": wf},
		TaskClasses: map[string]string{"basic1": basic1, "direct1": direct1},
		Agents: []simcore.Agent{{Hostname: "host1", CPUs: 4, Mem: 4096, Ports: [][2]uint64{{9000, 9100}, {30000, 30100}},
			Attributes: map[string]string{"machine_id": "host1"}}},
		Quiet: os.Getenv("SIM_VERBOSE") == "",
	})
	if err != nil {
		fmt.Println("ERR", err)
		os.Exit(1)
	}
	fid, ok := s.Consul.Get("o2/runtime/aliecs/mesos_fid")
	fmt.Println("fid key:", fid, ok)
	t0 := time.Now()
	id, err := s.Envman.CreateEnvironment("probe", map[string]string{}, false, uid.New(), false)
	fmt.Println("create:", id, err, time.Since(t0))
	n := dump(s, 0)
	fmt.Println("--- reconnect")
	s.Reconnect()
	time.Sleep(3 * time.Second)
	n = dump(s, n)
	fmt.Printf("live: %+v\n", s.LiveTasks())
	for _, t := range s.Taskman.VerifRoster() {
		fmt.Printf("%+v\n", t)
	}
	env, _ := s.Envman.Environment(id)
	if env != nil {
		fmt.Println("env state:", env.CurrentState())
	}
	fmt.Println("--- restart")
	t0 = time.Now()
	err = s.Restart()
	fmt.Println("restart:", err, time.Since(t0))
	time.Sleep(3 * time.Second)
	n = dump(s, n)
	fmt.Printf("live: %+v\n", s.LiveTasks())
	for _, t := range s.Taskman.VerifRoster() {
		fmt.Printf("%+v\n", t)
	}
	fmt.Println("envs:", len(s.Envman.Ids()))
	fmt.Println("consul log:", s.Consul.Log)
}
