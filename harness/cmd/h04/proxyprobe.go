// h04 -proxyprobe FILE: what the cache proxy between the core and the configuration backend
// (apricot/cacheproxy.Service, the code of the repository under check) ANSWERS to detector look-ups, run over a
// small in-memory inventory that grows after the proxy took its start-up snapshot.  Translator 'proxymiss'
// reads the table: the fact it emits is observed on the running code, not read off its text.
package main

import (
	"encoding/json"
	"fmt"
	"os"
	"sort"
	"sync"

	"github.com/AliceO2Group/Control/apricot/cacheproxy"
	"github.com/AliceO2Group/Control/configuration"
)

type probeBackend struct {
	configuration.Service // nothing else is asked
	mu                    sync.Mutex
	inv                   map[string][]string
	listCalls, hostCalls  int
}

func (b *probeBackend) GetDetectorsInventory() (map[string][]string, error) {
	b.mu.Lock()
	defer b.mu.Unlock()
	out := map[string][]string{}
	for d, hs := range b.inv {
		out[d] = append([]string{}, hs...)
	}
	return out, nil
}

func (b *probeBackend) find(host string) (string, error) {
	for d, hs := range b.inv {
		for _, h := range hs {
			if h == host {
				return d, nil
			}
		}
	}
	return "", fmt.Errorf("detector not found for host %s", host)
}

func (b *probeBackend) GetDetectorForHost(host string) (string, error) {
	b.mu.Lock()
	defer b.mu.Unlock()
	b.hostCalls++
	return b.find(host)
}

func (b *probeBackend) GetDetectorsForHosts(hosts []string) ([]string, error) {
	b.mu.Lock()
	defer b.mu.Unlock()
	b.listCalls++
	return b.answer(hosts)
}

// the reference answer (not counted as a call)
func (b *probeBackend) answer(hosts []string) ([]string, error) {
	set := map[string]struct{}{}
	for _, h := range hosts {
		d, err := b.find(h)
		if err != nil {
			return []string{}, err
		}
		set[d] = struct{}{}
	}
	out := []string{}
	for d := range set {
		out = append(out, d)
	}
	sort.Strings(out)
	return out, nil
}

type ProxyProbeRow struct {
	Hosts   []string `json:"hosts"`
	Proxy   []string `json:"proxy"`
	Backend []string `json:"backend"`
	PErr    bool     `json:"proxy_err"`
	BErr    bool     `json:"backend_err"`
	Same    bool     `json:"same"`
}

type ProxyProbe struct {
	Rows      []ProxyProbeRow `json:"rows"`
	AllSame   bool            `json:"all_same"`
	ListCalls int             `json:"backend_list_calls"` // backend asked about a whole host list
	HostCalls int             `json:"backend_host_calls"` // backend asked about one host
	Err       string          `json:"err,omitempty"`
}

func runProxyProbe(file string) {
	res := ProxyProbe{AllSame: true}
	b := &probeBackend{inv: map[string][]string{"TPC": {"h0", "h1"}, "ITS": {"h2"}}}
	svc, err := cacheproxy.NewService(b)
	if err != nil || svc == nil {
		res.Err = fmt.Sprint("cacheproxy.NewService: ", err)
		res.AllSame = false
	} else {
		// hosts that join after the snapshot: one to a known detector, one to a new detector
		b.mu.Lock()
		b.inv["ITS"] = append(b.inv["ITS"], "h3")
		b.inv["TRD"] = []string{"h4"}
		b.mu.Unlock()
		queries := [][]string{{"h0"}, {"h0", "h1"}, {"h0", "h2"}, {"h3"}, {"h4"}, {"h0", "h3"}, {"h3", "h0"}, {"h2", "h4", "h1"},
			{"h3", "h4"}, {"h9"}, {"h0", "h9"}, {}, {"h3"}, {"h4", "h0"}, {"h3", "h3"}}
		for _, q := range queries {
			want, werr := b.answer(q)
			got, gerr := svc.GetDetectorsForHosts(append([]string{}, q...))
			got = append([]string{}, got...)
			sort.Strings(got)
			row := ProxyProbeRow{Hosts: q, Proxy: got, Backend: want, PErr: gerr != nil, BErr: werr != nil}
			row.Same = row.PErr == row.BErr && (row.PErr || fmt.Sprint(got) == fmt.Sprint(want))
			if !row.Same {
				res.AllSame = false
			}
			res.Rows = append(res.Rows, row)
		}
		// the single-host look-up of the proxy
		for _, h := range []string{"h0", "h2", "h3", "h4", "h9", "h3"} {
			want, werr := b.find(h)
			got, gerr := svc.GetDetectorForHost(h)
			row := ProxyProbeRow{Hosts: []string{h}, Proxy: []string{got}, Backend: []string{want}, PErr: gerr != nil, BErr: werr != nil}
			row.Same = row.PErr == row.BErr && (row.PErr || got == want)
			if !row.Same {
				res.AllSame = false
			}
			res.Rows = append(res.Rows, row)
		}
		b.mu.Lock()
		res.ListCalls, res.HostCalls = b.listCalls, b.hostCalls
		b.mu.Unlock()
	}
	raw, _ := json.MarshalIndent(res, "", " ")
	if err := os.WriteFile(file, raw, 0o644); err != nil {
		fmt.Fprintln(os.Stderr, "h04 -proxyprobe:", err)
		os.Exit(2)
	}
}
