// h04: correspondence harness shared by C04 (task / detector ownership) and C06 (nothing left behind
// after destroy / failed creation).  It drives the real core in-process (internal/simcore): histories of
// NewEnvironment / ControlEnvironment / DestroyEnvironment / CleanupTasks requests on 2-4 environments
// that share hosts and detectors, with scripted launch / CONFIGURE / transition outcomes, DESTROY hooks at
// several weights and overlapped creations (gated at template-processing time).  After every request it
// records GetEnvironments, GetActiveDetectors, the roster (owner, status, state), the KILL / transition /
// hook-trigger calls seen by the simulated master and the plugin calls, and writes (operations, observations)
// as Coq terms of type [hcase] (model/Teardown.v).
//
// One child process per history (the core has package-level singletons and a history may hang or crash it).
//
//	h04 -prop C04|C06 -seed S -n N -out DIR [-shards K] [-replay FILE] [-tier quick|thorough]
package main

import (
	"bytes"
	"context"
	"encoding/json"
	"flag"
	"fmt"
	"github.com/AliceO2Group/Control/apricot"
	"github.com/AliceO2Group/Control/core/workflow/callable"
	"os"
	"os/exec"
	"path/filepath"
	"runtime/pprof"
	"sort"
	"strings"
	"sync"
	"time"

	"github.com/AliceO2Group/Control/common/utils/uid"
	"github.com/AliceO2Group/Control/core/environment"
	"github.com/AliceO2Group/Control/core/integration"
	pb "github.com/AliceO2Group/Control/core/protos"
	mesos "github.com/mesos/mesos-go/api/v1/lib"
	"github.com/spf13/viper"
	"google.golang.org/grpc/status"

	"verif/harness/internal/gen"
	"verif/harness/internal/simcore"
	"verif/harness/internal/vplugin"
)

// ---------------------------------------------------------------- inputs

// role kinds
const (
	KPlain    = 0
	KHookTask = 1
	KHookCall = 2
	KPend     = 3
	KLeave    = 4 // call role started by the leave_<state St> hooks, awaited at a moment that never comes
)

type Role struct {
	Kind   int  `json:"k"`
	Ch     int  `json:"ch,omitempty"`    // plain role: shared task class "sh<Ch>" (0: a class of its own)
	St     int  `json:"st,omitempty"`    // KLeave: environment state code (2 CONFIGURED, 3 RUNNING, 4 ERROR)
	After  bool `json:"after,omitempty"` // after_DESTROY instead of DESTROY
	W      int  `json:"w,omitempty"`     // hook weight
	Crit   bool `json:"crit,omitempty"`
	Host   int  `json:"host"`
	Launch int  `json:"launch,omitempty"` // 0 running, 1 fails after launch, 2 stays staging
	Cfg    bool `json:"cfgerr,omitempty"` // refuses CONFIGURE during creation
	// KPend / KLeave only; the model does not depend on them (a pending call is a pending call wherever the
	// registry files it): weight of the trigger (another moment of the same phase), await point
	// (0 after_EXIT, 1 before_EXIT) and its weight
	TW int `json:"tw,omitempty"`
	AN int `json:"an,omitempty"`
	AW int `json:"aw,omitempty"`
}

var awaitNames = []string{"after_EXIT", "before_EXIT"}

func awaitExpr(r Role) string {
	s := awaitNames[r.AN%len(awaitNames)]
	if r.AW != 0 {
		s += fmt.Sprintf("%+d", r.AW)
	}
	return s
}

func trigW(r Role) string {
	if r.TW != 0 {
		return fmt.Sprintf("%+d", r.TW)
	}
	return ""
}

type Spec struct {
	Hosts  []int  `json:"hosts"`
	Reuse  bool   `json:"reuse,omitempty"`  // created with reuseUnlockedTasks=true
	Refuse []int  `json:"refuse,omitempty"` // numbers of the roles for whose task the master refuses KILL calls
	Fail   int    `json:"fail,omitempty"`   // 0 none 1 missing template 2 template error 3 host without detector 4 undeployable role
	Roles  []Role `json:"roles"`
}

type Op struct {
	K      string `json:"op"`               // snap finish create control destroy cleanup kill dies xfail
	Agent  bool   `json:"agent,omitempty"`  // xfail: the whole agent of task T fails (else its executor)
	Reconn bool   `json:"reconn,omitempty"` // recon: drop the event stream first (the core re-subscribes and reconciles)
	E      int    `json:"e,omitempty"`
	Spec   *Spec  `json:"spec,omitempty"`
	Ev     int    `json:"ev,omitempty"` // 1 CONFIGURE 2 START 3 STOP 4 RESET
	Fail   bool   `json:"fail,omitempty"`
	Force  bool   `json:"force,omitempty"`
	Allow  bool   `json:"allow,omitempty"`
	Keep   bool   `json:"keep,omitempty"`
	Ids    []int  `json:"ids,omitempty"`
	T      int    `json:"t,omitempty"`
}

type History struct {
	Ops []Op `json:"ops"`
	// hosts that join the detectors inventory only after the core started: the cache proxy between the core
	// and the configuration backend (apricot/cacheproxy, configCache=true) has no entry for them.  The model
	// does not know the difference: the proxy has to answer like the backend.
	Late []int `json:"late,omitempty"`
}

// hosts and the detector each belongs to (index into detNames; -1 = none: creation fails)
var hostDet = []int{0, 0, 1, 2, 2, -1}
var detNames = []string{"TPC", "ITS", "TRD"}

func hostName(i int) string { return fmt.Sprintf("h%d", i) }

func detsOf(hosts []int) []int {
	seen := map[int]bool{}
	var out []int
	for _, h := range hosts {
		d := hostDet[h]
		if d >= 0 && !seen[d] {
			seen[d] = true
			out = append(out, d)
		}
	}
	sort.Ints(out)
	return out
}

func tidOf(e, i int) int { return e*64 + i }

// ---------------------------------------------------------------- observations

type TaskObs struct {
	Id     int  `json:"id"`
	Owner  int  `json:"owner"` // environment of the parent role, locked or not; -1 none
	Active bool `json:"active"`
	State  int  `json:"state"`
	Ch     int  `json:"ch,omitempty"` // shared task class it runs ("sh<Ch>"), 0 for a class of its own
	Idok   bool `json:"idok"`         // agent and executor id still set (false after an executor / agent failure)
}

type EnvObs struct {
	Id    int   `json:"id"`
	State int   `json:"state"`
	Dets  []int `json:"dets"`
	Pend  int   `json:"pend"`
}

type Obs struct {
	Rc     int       `json:"rc"`
	Envs   []EnvObs  `json:"envs"`
	Roster []TaskObs `json:"roster"`
	ADets  []int     `json:"adets"`
	Kills  []int     `json:"kills"`
	Cmds   []int     `json:"cmds"`
	Calls  []int     `json:"calls"`
	Trigs  []int     `json:"trigs"`
	Early  int       `json:"early"`
	Pend   int       `json:"pend"`
	Launch []int     `json:"launch"`
	Leak   []int     `json:"leak"` // launched so far, running at the master, in no roster, never sent KILL
	Note   string    `json:"note,omitempty"`
	stg    []int
	xf     []int
	wait   bool
	stale  []int
	hasSt  bool
}

type Result struct {
	Obs []Obs `json:"obs"`
	// oracle values read off the run: index of a create/finish request -> 5 when the DEPLOY transition
	// timed out although the specification lets every task report in (lost status notification)
	Fail map[int]int `json:"fail,omitempty"`
	// index of a create/finish request -> role numbers whose task was launched and scripted to report
	// running, but whose TASK_RUNNING had not been processed by the core when the creation gave up
	// (machine under load): for the model these tasks were still staging
	Stg map[int][]int `json:"stg,omitempty"`
	// index of an xfail request -> the tasks that shared the failed executor / agent (read off the roster)
	Xf map[int][]int `json:"xf,omitempty"`
	// index of a cleanup request that did not return while a kill request was held in the master
	Waiting map[int]bool `json:"waiting,omitempty"`
	// index of the release request -> the unlocked tasks the waiting cleanup had listed when it started
	Stale  map[int][]int `json:"stale,omitempty"`
	Err    string        `json:"err,omitempty"`
	Hung   bool          `json:"hung,omitempty"`
	HungOp string        `json:"hung_op,omitempty"` // kind of the request that did not return
	// a creation gave up on its deploy timeout before the scheduler had even handed the launched tasks
	// to the roster (machine under heavy load): the run says nothing about the clean-up, it is repeated
	Slow bool `json:"slow,omitempty"`
	// the core process died (Go fatal error / panic) inside the request after the last complete observation
	Crashed bool `json:"crashed,omitempty"`
}

// ---------------------------------------------------------------- Coq printing

func zTerm(n int) string {
	if n < 0 {
		return fmt.Sprintf("(%d)%%Z", n)
	}
	return fmt.Sprintf("%d%%Z", n)
}

func nl(xs []int) string {
	items := make([]string, len(xs))
	for i, x := range xs {
		items[i] = fmt.Sprintf("%d", x)
	}
	return gen.List(items)
}

// task names: the JSON side keeps e*64+i, the Coq side has the pair (e, i)
func tidTerm(k int) string { return fmt.Sprintf("(%d, %d)", k/64, k%64) }

func tl(xs []int) string {
	items := make([]string, len(xs))
	for i, x := range xs {
		items[i] = tidTerm(x)
	}
	return gen.List(items)
}

func roleTerm(r Role) string {
	k := "RPlain"
	switch r.Kind {
	case KHookTask:
		k = fmt.Sprintf("(RHookTask %s %s)", gen.Bool(r.After), zTerm(r.W))
	case KHookCall:
		k = fmt.Sprintf("(RHookCall %s %s)", gen.Bool(r.After), zTerm(r.W))
	case KPend:
		k = "RPend"
	case KLeave:
		k = fmt.Sprintf("(RLeave %d)", r.St)
	}
	ch := 0
	if r.Kind == KPlain {
		ch = r.Ch
	}
	return fmt.Sprintf("(mkRole %s %s %d %s %d)", k, gen.Bool(r.Crit), r.Launch, gen.Bool(r.Cfg), ch)
}

func specTerm(s *Spec) string {
	rs := make([]string, len(s.Roles))
	for i, r := range s.Roles {
		rs[i] = roleTerm(r)
	}
	return fmt.Sprintf("(mkSpec %s %d %s %s %s)", nl(detsOf(s.Hosts)), s.Fail, gen.List(rs), nl(s.Refuse), gen.Bool(s.Reuse))
}

func opTerm(o Op) string {
	switch o.K {
	case "snap":
		return fmt.Sprintf("(OSnap %d false)", o.E)
	case "finish":
		return fmt.Sprintf("(OFinish %d %s)", o.E, specTerm(o.Spec))
	case "create":
		return fmt.Sprintf("(OCreate %d %s)", o.E, specTerm(o.Spec))
	case "control":
		return fmt.Sprintf("(OControl %d %d %s)", o.E, o.Ev, gen.Bool(o.Fail))
	case "destroy":
		return fmt.Sprintf("(ODestroy %d %s %s %s %s)", o.E, gen.Bool(o.Force), gen.Bool(o.Allow), gen.Bool(o.Keep), gen.Bool(o.Fail))
	case "cleanup":
		return "OCleanup"
	case "kill":
		return fmt.Sprintf("(OKill %s)", tl(o.Ids))
	case "dies":
		return fmt.Sprintf("(ODies %s)", tidTerm(o.T))
	case "xfail":
		return fmt.Sprintf("(OFail %s)", tl(o.Ids))
	case "refuse":
		return fmt.Sprintf("(ORefuse %s)", tl(o.Ids))
	case "killhold":
		return fmt.Sprintf("(OKill %s)", tl(o.Ids))
	case "relock":
		return fmt.Sprintf("(ORelock %s)", tidTerm(o.T))
	case "nop":
		return "ONop"
	case "stale":
		return fmt.Sprintf("(OCleanupStale %s)", tl(o.Ids))
	case "recon":
		return "ORecon"
	}
	return "OCleanup"
}

func obsTerm(o Obs) string {
	es := make([]string, len(o.Envs))
	for i, e := range o.Envs {
		es[i] = fmt.Sprintf("(mkEO %d %d %s %d)", e.Id, e.State, nl(e.Dets), e.Pend)
	}
	ts := make([]string, len(o.Roster))
	for i, t := range o.Roster {
		ow := "None"
		if t.Owner >= 0 {
			ow = fmt.Sprintf("(Some %d)", t.Owner)
		}
		ts[i] = fmt.Sprintf("(mkTask %s %s %s %d %s 0 %d)", tidTerm(t.Id), ow, gen.Bool(t.Active), t.State, gen.Bool(t.Idok), t.Ch)
	}
	return fmt.Sprintf("(mkObs %d %s %s %s %s %s %s %s %d %d %s %s)", o.Rc, gen.List(es), gen.List(ts), nl(o.ADets),
		tl(o.Kills), tl(o.Cmds), tl(o.Calls), tl(o.Trigs), o.Early, o.Pend, tl(o.Launch), tl(o.Leak))
}

func caseTerm(h History, r Result) string {
	ops := make([]string, len(h.Ops))
	for i, o := range h.Ops {
		if f, ok := r.Fail[i]; ok && o.Spec != nil {
			sp := *o.Spec
			sp.Fail = f
			o.Spec = &sp
		}
		if o.K == "xfail" {
			o.Ids = r.Xf[i]
		}
		if o.K == "cleanup" && r.Waiting[i] {
			o.K = "nop" // it did not return: its effect comes when the held kill request is released
		}
		if o.K == "release" {
			if ids, ok := r.Stale[i]; ok {
				o.K, o.Ids = "stale", ids
			} else {
				o.K = "nop"
			}
		}
		if st, ok := r.Stg[i]; ok && o.Spec != nil {
			sp := *o.Spec
			sp.Roles = append([]Role(nil), o.Spec.Roles...)
			for _, j := range st {
				if j < len(sp.Roles) && sp.Roles[j].Launch == 0 {
					sp.Roles[j].Launch = 2
				}
			}
			o.Spec = &sp
		}
		ops[i] = opTerm(o)
	}
	obs := make([]string, len(r.Obs))
	for i, o := range r.Obs {
		obs[i] = obsTerm(o)
	}
	return fmt.Sprintf("(mkCase %s %s)", gen.List(ops), gen.List(obs))
}

// ---------------------------------------------------------------- the child: one history on a fresh core

const directClass = `name: %s
control:
  mode: direct
wants:
  cpu: 0.1
  memory: 64
command:
  env: []
  shell: true
  value: "sleep 1000"
`
const basicClass = `name: %s
control:
  mode: basic
wants:
  cpu: 0.1
  memory: 64
command:
  env: []
  shell: true
  value: "true"
`

func roleClass(e, i int, r Role) string {
	if r.Kind == KPlain && r.Ch > 0 {
		return fmt.Sprintf("sh%d", r.Ch)
	}
	return className(e, i, r.Kind)
}

func className(e, i int, kind int) string {
	if kind == KHookTask {
		return fmt.Sprintf("e%dk%d", e, i)
	}
	return fmt.Sprintf("e%dp%d", e, i)
}

func workflowYAML(name string, e int, s *Spec, gated bool) string {
	var b strings.Builder
	hosts := make([]string, len(s.Hosts))
	for i, h := range s.Hosts {
		hosts[i] = `"` + hostName(h) + `"`
	}
	fmt.Fprintf(&b, "name: %s\ndefaults:\n  deploy_timeout: 3s\n  hosts: '[%s]'\n", name, strings.Join(hosts, ","))
	if gated {
		fmt.Fprintf(&b, "vars:\n  gate: '{{ vgate.Gate(\"g%d\") }}'\n", e)
	}
	if s.Fail == 2 {
		b.WriteString("vars:\n  broken: '{{ nosuch.x( }}'\n")
	}
	b.WriteString("roles:\n")
	for i, r := range s.Roles {
		switch r.Kind {
		case KPlain, KHookTask:
			fmt.Fprintf(&b, "  - name: \"r%d\"\n    constraints:\n      - attribute: machine_id\n        value: \"%s\"\n    task:\n      load: %s\n      critical: %v\n",
				i, hostName(r.Host), roleClass(e, i, r), r.Crit)
			if r.Kind == KHookTask {
				trig := "DESTROY"
				if r.After {
					trig = "after_DESTROY"
				}
				fmt.Fprintf(&b, "      trigger: %s%+d\n      timeout: 3s\n", trig, r.W)
			}
		case KHookCall:
			trig := "DESTROY"
			if r.After {
				trig = "after_DESTROY"
			}
			fmt.Fprintf(&b, "  - name: \"r%d\"\n    call:\n      func: verif.Probe(\"d%d\")\n      trigger: %s%+d\n      timeout: 3s\n      critical: %v\n",
				i, tidOf(e, i), trig, r.W, r.Crit)
		case KLeave:
			fmt.Fprintf(&b, "  - name: \"r%d\"\n    call:\n      func: verif.Probe(\"l%d\")\n      trigger: leave_%s%s\n      await: %s\n      timeout: 3s\n      critical: false\n",
				i, tidOf(e, i), envStateNames[r.St], trigW(r), awaitExpr(r))
		case KPend:
			fmt.Fprintf(&b, "  - name: \"r%d\"\n    call:\n      func: verif.Probe(\"p%d\")\n      trigger: before_CONFIGURE%s\n      await: %s\n      timeout: 3s\n      critical: false\n",
				i, tidOf(e, i), trigW(r), awaitExpr(r))
		}
	}
	if s.Fail == 6 {
		// a critical role whose host is offered but whose second constraint no agent satisfies: the other
		// roles are launched, this one is undeployable (partial deployment failure)
		fmt.Fprintf(&b, "  - name: \"rx\"\n    constraints:\n      - attribute: machine_id\n        value: \"%s\"\n      - attribute: verif_none\n        value: \"x\"\n    task:\n      load: %s\n      critical: true\n", hostName(5), className(e, 63, KPlain))
	}
	if s.Fail == 4 {
		// a critical role that no agent can take
		fmt.Fprintf(&b, "  - name: \"rx\"\n    constraints:\n      - attribute: machine_id\n        value: \"nohost\"\n    task:\n      load: %s\n      critical: true\n", className(e, 63, KPlain))
	}
	return b.String()
}

type gates struct {
	calls   []*callable.Call // every hook call the core ran, in order (handed to the plugins by Call.Call)
	mu      sync.Mutex
	ch      map[string]chan struct{}
	reached map[string]bool
}

func (g *gates) arm(id string) {
	g.mu.Lock()
	g.ch[id] = make(chan struct{})
	g.mu.Unlock()
}
func (g *gates) release(id string) {
	g.mu.Lock()
	c := g.ch[id]
	delete(g.ch, id)
	g.mu.Unlock()
	if c != nil {
		close(c)
	}
}
func (g *gates) isReached(id string) bool {
	g.mu.Lock()
	defer g.mu.Unlock()
	return g.reached[id]
}

type gatePlugin struct {
	integration.Plugin
	g *gates
}

func (p *gatePlugin) GetName() string { return "vgate" }
func (p *gatePlugin) CallStack(data interface{}) map[string]interface{} {
	if c, ok := data.(*callable.Call); ok && c != nil {
		p.g.mu.Lock()
		p.g.calls = append(p.g.calls, c)
		p.g.mu.Unlock()
	}
	return map[string]interface{}{}
}

// liveStarted: the calls of environment e that were started for an await point that never comes (probes
// p<k> / l<k>) and are still cancellable - known from the calls the core ran, not from the environment's
// own registry of pending calls (which is what teardown walks, and may have lost some)
func (c *child) liveStarted(e int) int {
	c.g.mu.Lock()
	defer c.g.mu.Unlock()
	n := 0
	for _, call := range c.g.calls {
		var k int
		f := call.Func
		i := strings.Index(f, "verif.Probe(\"")
		if i < 0 {
			continue
		}
		f = f[i+len("verif.Probe(\""):]
		if !(strings.HasPrefix(f, "p") || strings.HasPrefix(f, "l")) {
			continue
		}
		if _, err := fmt.Sscanf(f[1:], "%d", &k); err != nil || k/64 != e {
			continue
		}
		if call.VerifC06Live() {
			n++
		}
	}
	return n
}

func maxInt(a, b int) int {
	if a > b {
		return a
	}
	return b
}
func (p *gatePlugin) ObjectStack(map[string]string, map[string]string) map[string]interface{} {
	return map[string]interface{}{
		"Gate": func(id string) string {
			p.g.mu.Lock()
			c := p.g.ch[id]
			p.g.reached[id] = true
			p.g.mu.Unlock()
			if c != nil {
				<-c
			}
			return "ok"
		},
	}
}

type launched struct {
	tid   string
	key   int // tidOf(e,i)
	e, i  int
	envId string
}

type child struct {
	s    *simcore.Sim
	rec  *vplugin.Recorder
	g    *gates
	ctx  context.Context
	hist History

	mu        sync.Mutex
	specs     map[int]*Spec  // env index -> spec
	envIds    map[int]string // env index -> environment id
	envIdx    map[string]int // environment id -> env index
	envPtr    map[int]*environment.Environment
	byTid     map[string]*launched
	failCmd   map[string]bool // class + "/" + event -> refuse (transient: one request)
	cfgErr    map[string]bool // class -> refuses CONFIGURE while its environment is being created
	early     int
	seenCall  int
	seenEv    int
	pending   map[int]chan createRes // gated creations in flight
	active    map[int]bool           // task key -> the core processed its TASK_RUNNING (status ACTIVE seen)
	entered   map[int]bool           // task key -> seen in the roster
	markers   int
	attempts  map[int]int // role key -> launches seen so far
	killed    map[string]bool
	holdTid   string        // KILL call for this task is held in the master ...
	holdGate  chan struct{} // ... until this is closed
	holdHit   chan struct{}
	holdDone  chan error // result of the held kill request
	pendDone  chan error // result of a cleanup that is waiting behind it
	pendIds   []int
	curCreate int          // environment index of the creation that is deploying
	refuse    map[int]bool // task key -> the master refuses KILL calls for it
	exfail    map[int]bool // task key -> its executor / agent failed
}

const markerPrefix = "verif-marker-"

type createRes struct {
	id  string
	err error
}

// lostDeploy: the creation failed with the DEPLOY timeout although nothing in its specification
// makes the deployment fail
func lostDeploy(s *Spec, err error) bool {
	if err == nil || s.Fail != 0 || !strings.Contains(err.Error(), "workflow deployment timed out") {
		return false
	}
	for _, r := range s.Roles {
		if r.Launch != 0 {
			return false
		}
	}
	return true
}

// notYetActive: after a creation that failed, the roles scripted to report running whose task was
// launched but whose TASK_RUNNING the core had not processed (observed by the launch controller,
// independently of what the clean-up then did with them)
func (c *child) notYetActive(e int, s *Spec, err error, launchedKeys []int, commanded []int) []int {
	if err == nil || s == nil {
		return nil
	}
	was := map[int]bool{}
	for _, k := range launchedKeys {
		was[k] = true
	}
	var out []int
	c.mu.Lock()
	defer c.mu.Unlock()
	for _, k := range commanded {
		c.active[k] = true // CONFIGURE is sent only after DEPLOY saw every role ACTIVE
	}
	for j, r := range s.Roles {
		if (r.Kind == KPlain || r.Kind == KHookTask) && r.Launch == 0 && was[tidOf(e, j)] && !c.active[tidOf(e, j)] {
			out = append(out, j)
		}
	}
	return out
}

func stateCode(s string) int {
	switch s {
	case "STANDBY":
		return 0
	case "CONFIGURED":
		return 1
	case "RUNNING":
		return 2
	case "ERROR":
		return 3
	}
	return 9
}

var envStateNames = map[int]string{0: "STANDBY", 1: "DEPLOYED", 2: "CONFIGURED", 3: "RUNNING", 4: "ERROR"}

func envStateCode(s string) int {
	switch s {
	case "STANDBY":
		return 0
	case "DEPLOYED":
		return 1
	case "CONFIGURED":
		return 2
	case "RUNNING":
		return 3
	case "ERROR":
		return 4
	case "DONE":
		return 5
	}
	return 9
}

func detIndex(name string) int {
	for i, d := range detNames {
		if d == name {
			return i
		}
	}
	return 99
}

func parseClass(cls string) (e, i int, ok bool) {
	var k byte
	n, err := fmt.Sscanf(cls, "e%d%c%d", &e, &k, &i)
	return e, i, err == nil && n == 3
}

// launch controller: every task is launched "silent"; it reports in only once the core has entered it
// in its roster, in the order  running tasks, then failing tasks  (staging tasks never report).
func (c *child) onLaunch(ti mesos.TaskInfo) string {
	cls := ti.Name
	if i := strings.LastIndex(cls, "#"); i >= 0 {
		cls = cls[:i]
	}
	if i := strings.LastIndex(cls, "/tasks/"); i >= 0 {
		cls = cls[i+len("/tasks/"):]
	}
	if i := strings.Index(cls, "@"); i >= 0 {
		cls = cls[:i]
	}
	e, i, ok := parseClass(cls)
	if !ok && strings.HasPrefix(cls, "sh") {
		// a shared class: the role is the one of the creation in progress that loads this class
		var ch int
		fmt.Sscanf(cls, "sh%d", &ch)
		c.mu.Lock()
		e = c.curCreate
		if sp := c.specs[e]; sp != nil {
			for j, ro := range sp.Roles {
				if ro.Kind == KPlain && ro.Ch == ch {
					i, ok = j, true
				}
			}
		}
		c.mu.Unlock()
	}
	if !ok {
		return "running"
	}
	envId := ""
	if ti.Labels != nil {
		for _, l := range ti.Labels.Labels {
			if l.Key == "environmentId" && l.Value != nil {
				envId = *l.Value
			}
		}
	}
	tid := ti.TaskID.Value
	c.mu.Lock()
	// a deployment that is retried launches the same roles again: attempt a of role i is task i + a*len(roles)
	spec := c.specs[e]
	attempt := c.attempts[tidOf(e, i)]
	c.attempts[tidOf(e, i)]++
	key := tidOf(e, i)
	if spec != nil && attempt > 0 {
		key = tidOf(e, i+attempt*len(spec.Roles))
	}
	c.byTid[tid] = &launched{tid: tid, key: key, e: e, i: i, envId: envId}
	if envId != "" {
		c.envIds[e] = envId
		c.envIdx[envId] = e
	}
	c.mu.Unlock()
	mode := 0
	if spec != nil && i < len(spec.Roles) {
		mode = spec.Roles[i].Launch
	}
	go func() {
		inRoster := func() bool {
			for _, t := range c.s.Taskman.VerifRoster() {
				if t.TaskId == tid {
					return true
				}
			}
			return false
		}
		if !simcore.WaitFor(12*time.Second, inRoster) {
			return // never entered the roster (deployment attempt abandoned)
		}
		c.mu.Lock()
		c.entered[key] = true
		c.mu.Unlock()
		switch mode {
		case 0:
			c.s.SetTaskRunning(tid)
			if simcore.WaitFor(10*time.Second, func() bool {
				for _, t := range c.s.Taskman.VerifRoster() {
					if t.TaskId == tid {
						return t.Status == "ACTIVE"
					}
				}
				return false
			}) {
				c.mu.Lock()
				c.active[key] = true
				c.mu.Unlock()
			}
		case 1:
			// wait until the tasks of this environment that report running have done so
			simcore.WaitFor(1000*time.Millisecond, func() bool {
				want := map[int]bool{}
				for j, r := range spec.Roles {
					if (r.Kind == KPlain || r.Kind == KHookTask) && r.Launch == 0 {
						want[tidOf(e, j)] = true
					}
				}
				for _, t := range c.s.Taskman.VerifRoster() {
					c.mu.Lock()
					l := c.byTid[t.TaskId]
					if l != nil && t.Status == "ACTIVE" {
						c.active[l.key] = true
					}
					c.mu.Unlock()
					if l != nil && want[l.key] && t.Status == "ACTIVE" {
						delete(want, l.key)
					}
				}
				return len(want) == 0
			})
			c.s.FailTask(tid, mesos.TASK_FAILED)
		}
	}()
	return "silent"
}

func (c *child) lookup(tid string) *launched {
	c.mu.Lock()
	defer c.mu.Unlock()
	return c.byTid[tid]
}

func (c *child) keyOfTid(tid string) int {
	c.mu.Lock()
	defer c.mu.Unlock()
	if l := c.byTid[tid]; l != nil {
		return l.key
	}
	return 9999
}

// a DESTROY hook (call or task) of environment e starts: is a non-hook task of e still owned by it?
func (c *child) checkEarly(e int) {
	c.mu.Lock()
	spec := c.specs[e]
	envId := c.envIds[e]
	c.mu.Unlock()
	if spec == nil || envId == "" {
		return
	}
	for _, t := range c.s.Taskman.VerifRoster() {
		c.mu.Lock()
		l := c.byTid[t.TaskId]
		c.mu.Unlock()
		if l == nil || l.e != e || l.i >= len(spec.Roles) {
			continue
		}
		if spec.Roles[l.i].Kind == KPlain && t.EnvId == envId && t.Locked {
			c.mu.Lock()
			c.early++
			c.mu.Unlock()
			return
		}
	}
}

func (c *child) projection() (envs []EnvObs, roster []TaskObs, adets []int) {
	ge, _ := c.s.Rpc.GetEnvironments(c.ctx, &pb.GetEnvironmentsRequest{ShowAll: true})
	live := c.s.LiveTasks()
	c.mu.Lock()
	defer c.mu.Unlock()
	if ge != nil {
		for _, e := range ge.Environments {
			idx, ok := c.envIdx[e.Id]
			if !ok {
				idx = 99
			}
			var ds []int
			for _, d := range e.IncludedDetectors {
				ds = append(ds, detIndex(d))
			}
			sort.Ints(ds)
			pend := 0
			if id, err := uid.FromString(e.Id); err == nil {
				if ep, err := c.s.Envman.Environment(id); err == nil && ep != nil {
					c.envPtr[idx] = ep
					_, pend = ep.VerifC06PendingCalls()
				}
			}
			pend = maxInt(pend, c.liveStarted(idx))
			envs = append(envs, EnvObs{Id: idx, State: envStateCode(e.State), Dets: ds, Pend: pend})
		}
	}
	sort.Slice(envs, func(i, j int) bool { return envs[i].Id < envs[j].Id })
	for _, t := range c.s.Taskman.VerifRoster() {
		l := c.byTid[t.TaskId]
		key := 9999
		if l != nil {
			key = l.key
		}
		// ownership is the parent link (GetEnvironmentId), whether or not the task is still locked
		owner := -1
		if t.EnvId != "" {
			if idx, ok := c.envIdx[t.EnvId]; ok {
				owner = idx
			} else {
				owner = 99
			}
		}
		idok := t.AgentId != "" && t.ExecutorId != ""
		// the state of a live task is read from the (simulated) device: the roster's copy is written by
		// one goroutine per reply, so an older reply can overwrite a newer one
		state := stateCode(t.State)
		if lt, ok := live[t.TaskId]; ok && !lt.Terminal && idok {
			state = stateCode(lt.SmState)
		}
		if t.Status != "ACTIVE" {
			state = 9 // not compared: written by unordered goroutines of the core (see model, norm_task)
		}
		ch := 0
		cn := t.ClassName
		if k := strings.LastIndex(cn, "/tasks/"); k >= 0 {
			cn = cn[k+len("/tasks/"):]
		}
		if strings.HasPrefix(cn, "sh") {
			fmt.Sscanf(cn, "sh%d", &ch)
		}
		roster = append(roster, TaskObs{Id: key, Owner: owner, Active: t.Status == "ACTIVE", State: state, Idok: idok, Ch: ch})
	}
	sort.Slice(roster, func(i, j int) bool { return roster[i].Id < roster[j].Id })
	ad, _ := c.s.Rpc.GetActiveDetectors(c.ctx, &pb.Empty{})
	if ad != nil {
		for _, d := range ad.Detectors {
			adets = append(adets, detIndex(d))
		}
	}
	sort.Ints(adets)
	return
}

// settle waits until the asynchronous bookkeeping of the core (status / state updates run in
// goroutines) has caught up: nothing observable moved for a few milliseconds.
func (c *child) settle() {
	deadline := time.Now().Add(1500 * time.Millisecond)
	last := ""
	stable := 0
	for time.Now().Before(deadline) {
		envs, roster, adets := c.projection()
		agree := true
		b, _ := json.Marshal([]interface{}{envs, roster, adets, len(c.s.CallsSnapshot()), len(c.rec.Events())})
		cur := string(b)
		if cur == last && agree {
			stable++
			if stable >= 4 {
				return
			}
		} else {
			stable = 0
		}
		last = cur
		time.Sleep(6 * time.Millisecond)
	}
}

func (c *child) observe(rc int, pendAfter int) Obs {
	c.settle()
	envs, roster, adets := c.projection()
	o := Obs{Rc: rc, Envs: envs, Roster: roster, ADets: adets, Pend: pendAfter,
		Kills: []int{}, Cmds: []int{}, Calls: []int{}, Trigs: []int{}, Launch: []int{}, Leak: []int{}}
	if o.Envs == nil {
		o.Envs = []EnvObs{}
	}
	if o.Roster == nil {
		o.Roster = []TaskObs{}
	}
	if o.ADets == nil {
		o.ADets = []int{}
	}
	calls := c.s.CallsSnapshot()
	for ; c.seenCall < len(calls); c.seenCall++ {
		r := calls[c.seenCall]
		switch r.Type {
		case "KILL":
			if strings.HasPrefix(r.Kill, markerPrefix) {
				continue
			}
			o.Kills = append(o.Kills, c.keyOfTid(r.Kill))
			c.killed[r.Kill] = true
		case "ACCEPT":
			for _, ti := range r.Tasks {
				o.Launch = append(o.Launch, c.keyOfTid(ti.TaskID.Value))
			}
		case "MESSAGE":
			if r.Msg == nil {
				continue
			}
			for _, t := range r.Msg.TaskIds {
				switch r.Msg.Name {
				case "MesosCommand_Transition":
					o.Cmds = append(o.Cmds, c.keyOfTid(t))
				case "MesosCommand_TriggerHook":
					o.Trigs = append(o.Trigs, c.keyOfTid(t))
				}
			}
		}
	}
	sort.Ints(o.Kills)
	sort.Ints(o.Cmds)
	sort.Ints(o.Trigs)
	sort.Ints(o.Launch)
	evs := c.rec.Events()
	for ; c.seenEv < len(evs); c.seenEv++ {
		ev := evs[c.seenEv]
		if ev.Kind == "start" && strings.HasPrefix(ev.Id, "d") {
			var k int
			fmt.Sscanf(ev.Id, "d%d", &k)
			o.Calls = append(o.Calls, k)
		}
	}
	c.mu.Lock()
	o.Early = c.early
	c.early = 0
	c.mu.Unlock()
	// what the simulated master still runs although no roster knows it and no KILL was ever sent for it
	inRoster := map[string]bool{}
	for _, t := range c.s.Taskman.VerifRoster() {
		inRoster[t.TaskId] = true
	}
	for tid, lt := range c.s.LiveTasks() {
		if lt.Terminal || inRoster[tid] || c.killed[tid] {
			continue
		}
		if k := c.keyOfTid(tid); k != 9999 {
			o.Leak = append(o.Leak, k)
		}
	}
	sort.Ints(o.Leak)
	return o
}

func (c *child) prepare(e int, s *Spec, gated bool) string {
	name := fmt.Sprintf("w%d", e)
	c.mu.Lock()
	for _, i := range s.Refuse {
		c.refuse[tidOf(e, i)] = true
	}
	c.specs[e] = s
	c.mu.Unlock()
	if s.Fail == 1 {
		return "missing" + name
	}
	os.WriteFile(filepath.Join(c.s.RepoDir, "workflows", name+".yaml"), []byte(workflowYAML(name, e, s, gated)), 0o644)
	for i, r := range s.Roles {
		switch r.Kind {
		case KPlain:
			n := roleClass(e, i, r)
			os.WriteFile(filepath.Join(c.s.RepoDir, "tasks", n+".yaml"), []byte(fmt.Sprintf(directClass, n)), 0o644)
		case KHookTask:
			n := className(e, i, r.Kind)
			os.WriteFile(filepath.Join(c.s.RepoDir, "tasks", n+".yaml"), []byte(fmt.Sprintf(basicClass, n)), 0o644)
		}
	}
	if s.Fail == 4 || s.Fail == 6 {
		n := className(e, 63, KPlain)
		os.WriteFile(filepath.Join(c.s.RepoDir, "tasks", n+".yaml"), []byte(fmt.Sprintf(directClass, n)), 0o644)
	}
	return name
}

func (c *child) setCfgErr(e int, s *Spec, on bool) {
	c.mu.Lock()
	for i, r := range s.Roles {
		if r.Cfg && (r.Kind == KPlain || r.Kind == KHookTask) {
			k := roleClass(e, i, r)
			if on {
				c.cfgErr[k] = true
			} else {
				delete(c.cfgErr, k)
			}
		}
	}
	c.mu.Unlock()
}

func (c *child) doCreate(e int, wf string) createRes {
	c.mu.Lock()
	c.curCreate = e
	reuse := c.specs[e] != nil && c.specs[e].Reuse
	c.mu.Unlock()
	viper.Set("reuseUnlockedTasks", reuse)
	r, err := c.s.Rpc.NewEnvironment(c.ctx, &pb.NewEnvironmentRequest{WorkflowTemplate: wf, Public: true})
	id := ""
	if err == nil && r != nil && r.Environment != nil {
		id = r.Environment.Id
	} else if st, ok := status.FromError(err); ok {
		for _, d := range st.Details() {
			if ei, ok := d.(*pb.EnvironmentInfo); ok {
				id = ei.Id
			}
		}
	}
	if id != "" {
		c.mu.Lock()
		c.envIds[e] = id
		c.envIdx[id] = e
		c.mu.Unlock()
		// a task this creation claimed (it was launched for another environment) is from now on the task of
		// the role it was claimed for
		for _, t := range c.s.Taskman.VerifRoster() {
			if t.EnvId != id {
				continue
			}
			c.mu.Lock()
			if l := c.byTid[t.TaskId]; l != nil && l.e != e {
				var j int
				seg := t.RolePath
				if k := strings.LastIndex(seg, "."); k >= 0 {
					seg = seg[k+1:]
				}
				if n, _ := fmt.Sscanf(seg, "r%d", &j); n == 1 {
					l.e, l.i, l.key = e, j, tidOf(e, j)
					c.active[l.key], c.entered[l.key] = true, true
				}
			}
			c.mu.Unlock()
		}
	}
	return createRes{id, err}
}

// which task refuses a transition when the oracle says so: the first critical plain role of the
// environment whose task is ACTIVE in the roster
func (c *child) failTarget(e int) (string, bool) {
	c.mu.Lock()
	spec := c.specs[e]
	c.mu.Unlock()
	if spec == nil {
		return "", false
	}
	active := map[int]bool{}
	for _, t := range c.s.Taskman.VerifRoster() {
		if t.Status == "ACTIVE" {
			active[c.keyOfTid(t.TaskId)] = true
		}
	}
	for i, r := range spec.Roles {
		if r.Kind == KPlain && r.Crit && active[tidOf(e, i)] {
			return roleClass(e, i, r), true
		}
	}
	return "", false
}

var evNames = map[int]string{1: "CONFIGURE", 2: "START", 3: "STOP", 4: "RESET"}
var evTypes = map[int]pb.ControlEnvironmentRequest_Optype{
	1: pb.ControlEnvironmentRequest_CONFIGURE, 2: pb.ControlEnvironmentRequest_START_ACTIVITY,
	3: pb.ControlEnvironmentRequest_STOP_ACTIVITY, 4: pb.ControlEnvironmentRequest_RESET}

func rcOf(err error) int {
	if err != nil {
		return 1
	}
	return 0
}

func (c *child) envIdOf(e int) string {
	c.mu.Lock()
	defer c.mu.Unlock()
	if id, ok := c.envIds[e]; ok {
		return id
	}
	return uid.New().String() // an id nobody knows
}

func (c *child) runOp(o Op) Obs {
	switch o.K {
	case "create":
		wf := c.prepare(o.E, o.Spec, false)
		c.setCfgErr(o.E, o.Spec, true)
		res := c.doCreate(o.E, wf)
		c.setCfgErr(o.E, o.Spec, false)
		if o.Spec.Fail == 6 {
			// the last attempt's tasks reach the roster when acquireTasks returns; those scripted to run report in
			want := 0
			for _, ro := range o.Spec.Roles {
				if (ro.Kind == KPlain || ro.Kind == KHookTask) && ro.Launch == 0 {
					want++
				}
			}
			simcore.WaitFor(8*time.Second, func() bool {
				n := 0
				for _, t := range c.s.Taskman.VerifRoster() {
					if l := c.lookup(t.TaskId); l != nil && l.e == o.E && t.Status == "ACTIVE" {
						n++
					}
				}
				return n >= 3*want // the tasks of all three attempts end in the roster
			})
		}
		if o.Spec.Fail == 4 {
			// acquireTasks keeps retrying (and holding the deployment mutex) for a while after
			// the DEPLOY transition has given up
			time.Sleep(1300 * time.Millisecond)
		}
		ob := c.observe(rcOf(res.err), 0)
		if lostDeploy(o.Spec, res.err) {
			ob.Note = "lost-deploy"
		}
		if o.Spec.Fail != 6 {
			ob.stg = c.notYetActive(o.E, o.Spec, res.err, ob.Launch, ob.Cmds)
		}
		if res.err == nil && fmt.Sprint(ob.Cmds) != fmt.Sprint(ob.Launch) {
			// the creation succeeded although CONFIGURE was not sent to every launched task (seen about
			// once in 5000 histories under load: the task list of the CONFIGURE transition is read while
			// task statuses are still being written) - C02's subject, not this harness's: run again
			ob.Note = "late-verdict"
		}
		if res.err != nil {
			c.mu.Lock()
			if ep := c.envPtr[o.E]; ep != nil {
				_, ob.Pend = ep.VerifC06PendingCalls()
			}
			ob.Pend = maxInt(ob.Pend, c.liveStarted(o.E))
			for _, k := range ob.Launch {
				if !c.entered[k] && o.Spec.Fail != 6 {
					ob.Note = "late-verdict"
				}
			}
			c.mu.Unlock()
		}
		return ob
	case "snap":
		// the creation is started now and held at template-processing time
		var spec *Spec
		for _, p := range c.hist.Ops {
			if p.K == "finish" && p.E == o.E {
				spec = p.Spec
			}
		}
		if spec == nil {
			return c.observe(1, 0)
		}
		wf := c.prepare(o.E, spec, true)
		gid := fmt.Sprintf("g%d", o.E)
		c.g.arm(gid)
		ch := make(chan createRes, 1)
		c.pending[o.E] = ch
		c.setCfgErr(o.E, spec, true)
		go func() { ch <- c.doCreate(o.E, wf) }()
		simcore.WaitFor(3*time.Second, func() bool { return c.g.isReached(gid) })
		ob := c.observe(0, 0)
		if !c.g.isReached(gid) {
			ob.Note = "gate not reached"
		}
		return ob
	case "finish":
		ch := c.pending[o.E]
		if ch == nil {
			return c.observe(1, 0)
		}
		// the deployment of the held creation happens now: it is the creation in progress again
		c.mu.Lock()
		c.curCreate = o.E
		c.mu.Unlock()
		viper.Set("reuseUnlockedTasks", o.Spec != nil && o.Spec.Reuse)
		c.g.release(fmt.Sprintf("g%d", o.E))
		res := <-ch
		delete(c.pending, o.E)
		c.setCfgErr(o.E, o.Spec, false)
		ob := c.observe(rcOf(res.err), 0)
		if lostDeploy(o.Spec, res.err) {
			ob.Note = "lost-deploy"
		}
		if o.Spec.Fail != 6 {
			ob.stg = c.notYetActive(o.E, o.Spec, res.err, ob.Launch, ob.Cmds)
		}
		if res.err == nil && fmt.Sprint(ob.Cmds) != fmt.Sprint(ob.Launch) {
			// the creation succeeded although CONFIGURE was not sent to every launched task (seen about
			// once in 5000 histories under load: the task list of the CONFIGURE transition is read while
			// task statuses are still being written) - C02's subject, not this harness's: run again
			ob.Note = "late-verdict"
		}
		if res.err != nil {
			c.mu.Lock()
			if ep := c.envPtr[o.E]; ep != nil {
				_, ob.Pend = ep.VerifC06PendingCalls()
			}
			ob.Pend = maxInt(ob.Pend, c.liveStarted(o.E))
			for _, k := range ob.Launch {
				if !c.entered[k] && o.Spec.Fail != 6 {
					ob.Note = "late-verdict"
				}
			}
			c.mu.Unlock()
		}
		return ob
	case "control":
		if o.Fail {
			if cls, ok := c.failTarget(o.E); ok {
				c.mu.Lock()
				c.failCmd[cls+"/"+evNames[o.Ev]] = true
				c.mu.Unlock()
			}
		}
		_, err := c.s.Rpc.ControlEnvironment(c.ctx, &pb.ControlEnvironmentRequest{Id: c.envIdOf(o.E), Type: evTypes[o.Ev]})
		c.mu.Lock()
		c.failCmd = map[string]bool{}
		c.mu.Unlock()
		return c.observe(rcOf(err), 0)
	case "destroy":
		if o.Fail {
			if cls, ok := c.failTarget(o.E); ok {
				c.mu.Lock()
				c.failCmd[cls+"/STOP"] = true
				c.failCmd[cls+"/RESET"] = true
				c.mu.Unlock()
			}
		}
		c.mu.Lock()
		ep := c.envPtr[o.E]
		c.mu.Unlock()
		_, err := c.s.Rpc.DestroyEnvironment(c.ctx, &pb.DestroyEnvironmentRequest{Id: c.envIdOf(o.E), Force: o.Force, AllowInRunningState: o.Allow, KeepTasks: o.Keep})
		c.mu.Lock()
		c.failCmd = map[string]bool{}
		c.mu.Unlock()
		pend := 0
		if ep != nil {
			time.Sleep(5 * time.Millisecond)
			_, pend = ep.VerifC06PendingCalls()
		}
		pend = maxInt(pend, c.liveStarted(o.E))
		return c.observe(rcOf(err), pend)
	case "killhold":
		// a kill request for one unowned task whose KILL call the master holds: KillTasks keeps its mutex
		tid := ""
		c.mu.Lock()
		for _, l := range c.byTid {
			if len(o.Ids) == 1 && l.key == o.Ids[0] {
				tid = l.tid
			}
		}
		c.holdTid, c.holdGate, c.holdHit = tid, make(chan struct{}), make(chan struct{}, 1)
		c.holdDone = make(chan error, 1)
		hit, done := c.holdHit, c.holdDone
		c.mu.Unlock()
		go func() {
			_, err := c.s.Rpc.CleanupTasks(c.ctx, &pb.CleanupTasksRequest{TaskIds: []string{tid}})
			done <- err
		}()
		select {
		case <-hit:
		case err := <-done: // nothing was held (the task was not there / not killable)
			c.mu.Lock()
			c.holdTid, c.holdGate, c.holdDone = "", nil, nil
			c.mu.Unlock()
			return c.observe(rcOf(err), 0)
		case <-time.After(3 * time.Second):
		}
		return c.observe(0, 0)
	case "release":
		c.mu.Lock()
		gate, done, pend, ids := c.holdGate, c.holdDone, c.pendDone, c.pendIds
		c.holdTid, c.holdGate, c.holdDone, c.pendDone, c.pendIds = "", nil, nil, nil, nil
		c.mu.Unlock()
		if gate != nil {
			close(gate)
		}
		if done != nil {
			select {
			case <-done:
			case <-time.After(5 * time.Second):
			}
		}
		rc := 0
		if pend != nil {
			select {
			case err := <-pend:
				rc = rcOf(err)
			case <-time.After(5 * time.Second):
			}
		}
		ob := c.observe(rc, 0)
		if pend != nil {
			ob.stale, ob.hasSt = ids, true
		}
		return ob
	case "relock":
		tid := ""
		c.mu.Lock()
		for _, l := range c.byTid {
			if l.key == o.T {
				tid = l.tid
			}
		}
		c.mu.Unlock()
		for _, t := range c.s.Taskman.VerifRoster() {
			if t.TaskId == tid && (t.AgentId == "" || t.ExecutorId == "") {
				c.s.SetTaskRunning(tid)
				simcore.WaitFor(3*time.Second, func() bool {
					for _, t2 := range c.s.Taskman.VerifRoster() {
						if t2.TaskId == tid {
							return t2.AgentId != "" && t2.ExecutorId != "" && t2.Status == "ACTIVE"
						}
					}
					return true
				})
				c.mu.Lock()
				delete(c.exfail, o.T)
				c.mu.Unlock()
			}
		}
		return c.observe(0, 0)
	case "cleanup":
		c.mu.Lock()
		held := c.holdGate != nil
		c.mu.Unlock()
		if !held {
			_, err := c.s.Rpc.CleanupTasks(c.ctx, &pb.CleanupTasksRequest{})
			return c.observe(rcOf(err), 0)
		}
		// a kill request is held in the master: the cleanup either does not care (it lists and kills at once)
		// or waits behind it - then its effect is observed when the kill request is released
		var listed []int
		for _, t := range c.s.Taskman.VerifRoster() {
			if !t.Locked {
				listed = append(listed, c.keyOfTid(t.TaskId))
			}
		}
		sort.Ints(listed)
		pd := make(chan error, 1)
		go func() {
			_, err := c.s.Rpc.CleanupTasks(c.ctx, &pb.CleanupTasksRequest{})
			pd <- err
		}()
		select {
		case err := <-pd:
			return c.observe(rcOf(err), 0)
		case <-time.After(2 * time.Second):
		}
		c.mu.Lock()
		c.pendDone, c.pendIds = pd, listed
		c.mu.Unlock()
		ob := c.observe(0, 0)
		ob.wait = true
		return ob
	case "kill":
		var ids []string
		c.mu.Lock()
		for _, k := range o.Ids {
			found := false
			for _, l := range c.byTid {
				if l.key == k {
					ids = append(ids, l.tid)
					found = true
				}
			}
			if !found {
				ids = append(ids, fmt.Sprintf("nosuchtask%d", k))
			}
		}
		c.mu.Unlock()
		_, err := c.s.Rpc.CleanupTasks(c.ctx, &pb.CleanupTasksRequest{TaskIds: ids})
		return c.observe(rcOf(err), 0)
	case "refuse":
		c.mu.Lock()
		for _, k := range o.Ids {
			c.refuse[k] = true
		}
		c.mu.Unlock()
		return c.observe(0, 0)
	case "recon":
		// status updates that originate from the master: TASK_RUNNING, reason reconciliation, agent
		// id but no executor id, for every running roster task (what a real master answers to the
		// implicit reconciliation of a re-subscription)
		if o.Reconn {
			from := len(c.s.CallsSnapshot())
			c.s.Reconnect()
			simcore.WaitFor(6*time.Second, func() bool {
				for _, r := range c.s.CallsSnapshot()[from:] {
					if r.Type == "RECONCILE" {
						return true
					}
				}
				return false
			})
		}
		for _, t := range c.s.Taskman.VerifRoster() {
			if t.Status == "ACTIVE" && t.AgentId != "" && t.ExecutorId != "" {
				c.s.PushReconciliationUpdate(t.TaskId, t.AgentId, mesos.TASK_RUNNING)
			}
		}
		// barrier: a marker update behind them comes back as a KILL once everything before it was handled
		c.markers++
		marker := fmt.Sprintf("%s%d", markerPrefix, c.markers)
		from := len(c.s.CallsSnapshot())
		c.s.PushReconciliationUpdate(marker, "verif-agent", mesos.TASK_RUNNING)
		simcore.WaitFor(6*time.Second, func() bool {
			for _, r := range c.s.CallsSnapshot()[from:] {
				if r.Type == "KILL" && r.Kill == marker {
					return true
				}
			}
			return false
		})
		time.Sleep(15 * time.Millisecond) // updateTaskStatus runs in goroutines of its own
		return c.observe(0, 0)
	case "xfail":
		// the executor (or the agent) of task o.T fails: every roster task sharing it is affected
		var target string
		c.mu.Lock()
		for _, l := range c.byTid {
			if l.key == o.T {
				target = l.tid
			}
		}
		c.mu.Unlock()
		var agentId, execId string
		ros := c.s.Taskman.VerifRoster()
		for _, t := range ros {
			if t.TaskId == target {
				agentId, execId = t.AgentId, t.ExecutorId
			}
		}
		var affected []string
		var keys []int
		ok := agentId != "" && execId != ""
		for _, t := range ros {
			if (o.Agent && t.AgentId == agentId) || (!o.Agent && t.ExecutorId == execId) {
				affected = append(affected, t.TaskId)
				keys = append(keys, c.keyOfTid(t.TaskId))
				if t.Critical {
					ok = false // would drive its environment to ERROR (C03), not modelled here
				}
			}
		}
		if !ok {
			return c.observe(0, 0)
		}
		if o.Agent {
			c.s.FailAgent(agentId)
		} else {
			c.s.FailExecutor(agentId, execId)
		}
		simcore.WaitFor(3*time.Second, func() bool {
			done := 0
			for _, t := range c.s.Taskman.VerifRoster() {
				for _, a := range affected {
					if t.TaskId == a && !t.Locked && t.Status != "ACTIVE" {
						done++
					}
				}
			}
			return done == len(affected)
		})
		sort.Ints(keys)
		c.mu.Lock()
		for _, k := range keys {
			c.exfail[k] = true
		}
		c.mu.Unlock()
		ob := c.observe(0, 0)
		ob.xf = keys
		return ob
	case "dies":
		c.mu.Lock()
		tid := ""
		for _, l := range c.byTid {
			if l.key == o.T {
				tid = l.tid
			}
		}
		c.mu.Unlock()
		if tid != "" {
			c.s.FailTask(tid, mesos.TASK_FAILED)
			simcore.WaitFor(3*time.Second, func() bool {
				for _, t := range c.s.Taskman.VerifRoster() {
					if t.TaskId == tid {
						// the status update and, for a locked task, the ERROR state are written by
						// separate goroutines of the core: wait for both
						return t.Status != "ACTIVE"
					}
				}
				return true
			})
		}
		return c.observe(0, 0)
	}
	return c.observe(1, 0)
}

func runChild(workDir string) {
	os.Remove(filepath.Join(workDir, "progress.json"))
	var h History
	if err := json.NewDecoder(os.Stdin).Decode(&h); err != nil {
		fmt.Fprintln(os.Stderr, "child: bad input:", err)
		os.Exit(2)
	}
	rec := vplugin.NewRecorder()
	g := &gates{ch: map[string]chan struct{}{}, reached: map[string]bool{}}
	var agents []simcore.Agent
	kv := map[string]string{}
	for i, d := range hostDet {
		hn := hostName(i)
		agents = append(agents, simcore.Agent{Hostname: hn, CPUs: 64, Mem: 262144,
			Ports: [][2]uint64{{9000, 12000}, {30000, 33000}}, Attributes: map[string]string{"machine_id": hn}})
		late := false
		for _, l := range h.Late {
			late = late || l == i
		}
		if d >= 0 && !late {
			kv["o2/hardware/detectors/"+detNames[d]+"/flps/"+hn+"/"] = ""
		}
	}
	base := vplugin.New(rec)
	s, err := simcore.New(simcore.Options{
		WorkDir: workDir,
		Plugins: map[string]integration.NewFunc{
			"verif": base,
			"vgate": func(ep string) integration.Plugin { return &gatePlugin{Plugin: base(ep), g: g} },
		},
		Workflows: map[string]string{}, TaskClasses: map[string]string{},
		Agents: agents, KV: kv,
		// the core's default: the real cache proxy answers the detector look-ups
		Settings: map[string]interface{}{"metrics.port": 0, "configCache": true},
		Quiet:    os.Getenv("SIM_VERBOSE") == "",
	})
	if err != nil {
		json.NewEncoder(os.Stdout).Encode(Result{Err: "simcore: " + err.Error()})
		return
	}
	// the configuration service (and the snapshot of its cache proxy) exists now; the late hosts join
	_ = apricot.Instance()
	for _, l := range h.Late {
		if l >= 0 && l < len(hostDet) && hostDet[l] >= 0 {
			s.Consul.Set("o2/hardware/detectors/"+detNames[hostDet[l]]+"/flps/"+hostName(l)+"/", "")
		}
	}
	c := &child{s: s, rec: rec, g: g, ctx: context.Background(), hist: h,
		specs: map[int]*Spec{}, envIds: map[int]string{}, envIdx: map[string]int{}, envPtr: map[int]*environment.Environment{},
		byTid: map[string]*launched{}, failCmd: map[string]bool{}, cfgErr: map[string]bool{}, pending: map[int]chan createRes{}, active: map[int]bool{}, entered: map[int]bool{}, attempts: map[int]int{}, killed: map[string]bool{}, refuse: map[int]bool{}, exfail: map[int]bool{}}
	s.Beh.Launch = c.onLaunch
	s.Beh.Command = func(taskId, cls, event string) simcore.CmdOutcome {
		k := c.keyOfTid(taskId)
		c.mu.Lock()
		defer c.mu.Unlock()
		c.active[k] = true // a command is only sent to a task that is ACTIVE for the core
		if c.failCmd[cls+"/"+event] || (event == "CONFIGURE" && c.cfgErr[cls]) {
			return simcore.CmdErrSource
		}
		return simcore.CmdAck
	}
	s.Beh.Kill = func(taskId string) bool {
		c.mu.Lock()
		gate, hit := c.holdGate, c.holdHit
		held := gate != nil && taskId == c.holdTid
		c.mu.Unlock()
		if held {
			select {
			case hit <- struct{}{}:
			default:
			}
			<-gate
		}
		return true
	}
	s.Beh.KillError = func(taskId string) error {
		// refused only while the task is ACTIVE for the core (the model's oracle applies to ACTIVE tasks)
		k := c.keyOfTid(taskId)
		lt, live := c.s.LiveTasks()[taskId]
		c.mu.Lock()
		defer c.mu.Unlock()
		if c.refuse[k] && c.active[k] && !c.exfail[k] && live && !lt.Terminal {
			return fmt.Errorf("verif: the master refuses to kill %s", taskId)
		}
		return nil
	}
	s.Beh.Hook = func(taskId, cls string) int {
		if e, _, ok := parseClass(cls); ok {
			c.checkEarly(e)
		}
		return 0
	}
	rec.OnStart = func(id string, vars map[string]string) {
		if strings.HasPrefix(id, "l") || strings.HasPrefix(id, "p") {
			// a pending-await call starts: remember the environment object (it may be gone from the
			// listing by the time the request returns, e.g. in the failure tail of a creation)
			var k int
			fmt.Sscanf(id[1:], "%d", &k)
			if eid, err := uid.FromString(vars["environment_id"]); err == nil {
				if ep, err := c.s.Envman.Environment(eid); err == nil && ep != nil {
					c.mu.Lock()
					c.envPtr[k/64] = ep
					c.mu.Unlock()
				}
			}
		}
		if strings.HasPrefix(id, "d") {
			var k int
			fmt.Sscanf(id, "d%d", &k)
			c.checkEarly(k / 64)
		}
	}
	res := Result{}
	var rmu sync.Mutex
	finish := func() {
		rmu.Lock()
		json.NewEncoder(os.Stdout).Encode(res)
		rmu.Unlock()
		os.Exit(0)
	}
	for i, o := range h.Ops {
		opDone := make(chan Obs, 1)
		go func() { opDone <- c.runOp(o) }()
		select {
		case ob := <-opDone:
			rmu.Lock()
			if ob.Note == "late-verdict" {
				res.Slow = true
			}
			if ob.Note == "lost-deploy" {
				if res.Fail == nil {
					res.Fail = map[int]int{}
				}
				res.Fail[i] = 5
			}
			if ob.wait {
				if res.Waiting == nil {
					res.Waiting = map[int]bool{}
				}
				res.Waiting[i] = true
			}
			if ob.hasSt {
				if res.Stale == nil {
					res.Stale = map[int][]int{}
				}
				res.Stale[i] = ob.stale
			}
			if o.K == "xfail" {
				if res.Xf == nil {
					res.Xf = map[int][]int{}
				}
				res.Xf[i] = ob.xf
			}
			if len(ob.stg) > 0 {
				if res.Stg == nil {
					res.Stg = map[int][]int{}
				}
				res.Stg[i] = ob.stg
			}
			res.Obs = append(res.Obs, ob)
			if b, e := json.Marshal(res); e == nil {
				os.WriteFile(filepath.Join(workDir, "progress.json"), b, 0o644)
			}
			rmu.Unlock()
		case <-time.After(15 * time.Second):
			// the request did not return (e.g. TeardownEnvironment waiting for a release
			// acknowledgement that was dropped, KillTasks waiting for a kill acknowledgement)
			rmu.Lock()
			res.Hung = true
			res.HungOp = o.K
			res.Err = fmt.Sprintf("request %d (%s) did not return within 15s", i, o.K)
			rmu.Unlock()
			if os.Getenv("H04_KEEPLOG") != "" {
				pprof.Lookup("goroutine").WriteTo(os.Stderr, 1)
			}
			finish()
		}
	}
	finish()
}

// ---------------------------------------------------------------- parent

func runHistory(h History, slot int, prop string, idx int) Result {
	build := os.Getenv("VERIF_BUILD")
	if build == "" {
		build = "/verif/build"
	}
	wd := filepath.Join(build, "sim", fmt.Sprintf("h04_%s_%d", prop, slot))
	in, _ := json.Marshal(h)
	cmd := exec.Command(os.Args[0], "-child", wd)
	cmd.Stdin = bytes.NewReader(in)
	var out, errb bytes.Buffer
	cmd.Stdout = &out
	cmd.Stderr = &errb
	cmd.Env = os.Environ()
	done := make(chan error, 1)
	if err := cmd.Start(); err != nil {
		return Result{Err: err.Error()}
	}
	go func() { done <- cmd.Wait() }()
	select {
	case err := <-done:
		if d := os.Getenv("H04_KEEPLOG"); d != "" {
			os.MkdirAll(d, 0o755)
			os.WriteFile(filepath.Join(d, fmt.Sprintf("child_%04d.log", idx)), errb.Bytes(), 0o644)
		}
		var r Result
		// the result is the last line of stdout (the core may print before it)
		lines := strings.Split(strings.TrimSpace(out.String()), "\n")
		if len(lines) > 0 && json.Unmarshal([]byte(lines[len(lines)-1]), &r) == nil {
			if d := os.Getenv("H04_KEEPLOG"); d != "" && r.Hung {
				os.WriteFile(filepath.Join(d, fmt.Sprintf("hung_%04d_%d.log", idx, time.Now().UnixNano())), errb.Bytes(), 0o644)
			}
			return r
		}
		msg := "child failed"
		if err != nil {
			msg += ": " + err.Error()
		}
		tail := errb.String()
		if strings.Contains(tail, "fatal error:") || strings.Contains(tail, "panic:") {
			// the core died inside a request: keep what was observed before it (progress file) and mark the
			// request as fatal (status 99, monitor code 9 of C04)
			var r Result
			if b, e := os.ReadFile(filepath.Join(wd, "progress.json")); e == nil {
				json.Unmarshal(b, &r)
			}
			last := Obs{Rc: 99, Envs: []EnvObs{}, Roster: []TaskObs{}, ADets: []int{}, Kills: []int{}, Cmds: []int{},
				Calls: []int{}, Trigs: []int{}, Launch: []int{}, Leak: []int{}}
			for _, pat := range []string{"fatal error:", "panic:"} {
				if k := strings.Index(tail, pat); k >= 0 && last.Note == "" {
					e := strings.IndexByte(tail[k:], '\n')
					if e < 0 {
						e = len(tail) - k
					}
					last.Note = tail[k : k+e]
				}
			}
			r.Obs = append(r.Obs, last)
			r.Crashed = true
			return r
		}
		if len(tail) > 600 {
			tail = tail[len(tail)-600:]
		}
		return Result{Err: msg + " | " + tail}
	case <-time.After(70 * time.Second):
		cmd.Process.Kill()
		return Result{Err: "child timed out", Hung: true}
	}
}

func main() {
	// child mode is recognised before the common flags are parsed
	if len(os.Args) >= 3 && os.Args[1] == "-proxyprobe" {
		runProxyProbe(os.Args[2])
		return
	}
	if len(os.Args) >= 3 && os.Args[1] == "-child" {
		runChild(os.Args[2])
		return
	}
	prop := flag.String("prop", "C04", "property id (C04 or C06): selects the monitor and the output names")
	workers := flag.Int("workers", 8, "child processes in parallel")
	o := gen.ParseFlags()
	var hists []History
	var kinds []string
	if o.Replay != "" {
		ins, ks, err := gen.LoadReplay(o.Replay)
		if err != nil {
			fmt.Fprintln(os.Stderr, err)
			os.Exit(2)
		}
		for i, raw := range ins {
			var h History
			if err := json.Unmarshal(raw, &h); err != nil {
				fmt.Fprintln(os.Stderr, "replay:", err)
				os.Exit(2)
			}
			hists = append(hists, h)
			kinds = append(kinds, ks[i])
		}
	} else {
		hists, kinds = generate(o, *prop)
	}
	results := make([]Result, len(hists))
	var rmu sync.Mutex
	retries := 0
	var hangs []string
	var wg sync.WaitGroup
	sem := make(chan int, *workers)
	for i := 0; i < *workers; i++ {
		sem <- i
	}
	t0 := time.Now()
	for i := range hists {
		wg.Add(1)
		slot := <-sem
		go func(i, slot int) {
			defer wg.Done()
			for try := 0; try < 3; try++ {
				results[i] = runHistory(hists[i], slot, *prop, i)
				if results[i].Crashed && len(results[i].Obs) == 1 && try < 2 {
					// died before the first request completed: more likely the start-up of the child than the core
					rmu.Lock()
					retries++
					hangs = append(hangs, fmt.Sprintf("history %d try %d: child died at start-up (%s)", i, try, results[i].Obs[0].Note))
					rmu.Unlock()
					continue
				}
				if results[i].Crashed || (!results[i].Hung && results[i].Err == "" && !(results[i].Slow && try < 2)) {
					break
				}
				if results[i].Slow && !results[i].Hung && results[i].Err == "" {
					rmu.Lock()
					retries++
					hangs = append(hangs, fmt.Sprintf("history %d try %d: deploy timeout before the offer verdict, or CONFIGURE sent to a subset of the launched tasks (repeated)", i, try))
					rmu.Unlock()
					continue
				}
				if results[i].Hung && results[i].HungOp == "destroy" && *prop == "C06" {
					// a destroy request that does not return is what C06 forbids (monitor code 9): keep
					// the observation as it is, no second chance.  (A creation can also stall before
					// anything of C06 is involved — a deployment request whose resource-offer verdict
					// never arrives keeps deployMu — so those are re-run.)
					rmu.Lock()
					hangs = append(hangs, fmt.Sprintf("history %d: %s", i, results[i].Err))
					rmu.Unlock()
					break
				}
				rmu.Lock()
				retries++
				if results[i].Hung {
					hangs = append(hangs, fmt.Sprintf("history %d try %d: %s", i, try, results[i].Err))
				}
				rmu.Unlock()
			}
			sem <- slot
		}(i, slot)
	}
	wg.Wait()
	var cases []gen.Case
	failed := 0
	hung := 0
	for i, h := range hists {
		r := results[i]
		if r.Hung {
			hung++
		}
		if r.Err != "" {
			failed++
			fmt.Fprintf(os.Stderr, "history %d (%s): %s\n", i, kinds[i], r.Err)
		}
		cases = append(cases, gen.Case{Term: caseTerm(h, r), Kind: kinds[i], Input: h, Obs: r})
	}
	extra := map[string]any{"child_failures": failed, "hung": hung, "retries": retries, "hangs_retried": hangs, "harness_wall_s": time.Since(t0).Seconds(),
		"ops_total": func() int {
			n := 0
			for _, h := range hists {
				n += len(h.Ops)
			}
			return n
		}()}
	report := "report04"
	if *prop == "C06" {
		report = "report06"
	}
	if err := gen.WriteCases(o, *prop, "From Verif Require Import Common Ownership Teardown OwnMon.", "hcase", report, cases, extra); err != nil {
		fmt.Fprintln(os.Stderr, err)
		os.Exit(2)
	}
	if failed > len(hists)/4 && len(hists) > 0 {
		fmt.Fprintf(os.Stderr, "too many child failures: %d of %d\n", failed, len(hists))
		os.Exit(3)
	}
}
