package main

import (
	"hash/fnv"

	"verif/harness/internal/gen"
)

// ---------------------------------------------------------------- corpus: the witnesses of the theorems

func plain(host int, crit bool) Role { return Role{Kind: KPlain, Host: host, Crit: crit} }
func hookTask(host int, after bool, w int, crit bool) Role {
	return Role{Kind: KHookTask, Host: host, After: after, W: w, Crit: crit}
}
func hookCall(after bool, w int) Role     { return Role{Kind: KHookCall, After: after, W: w} }
func leaveCall(st int) Role               { return Role{Kind: KLeave, St: st} }
func shared(host, ch int, crit bool) Role { return Role{Kind: KPlain, Host: host, Ch: ch, Crit: crit} }

func corpus(tier string) ([]History, []string) {
	var hs []History
	var ks []string
	add := func(k string, ops ...Op) { hs = append(hs, History{Ops: ops}); ks = append(ks, "corpus:"+k) }
	cr := func(e int, hosts []int, roles ...Role) Op {
		return Op{K: "create", E: e, Spec: &Spec{Hosts: hosts, Roles: roles}}
	}
	// C06_multiweight_destroy_hooks_refuted: DESTROY hook tasks at two weights, destroy
	add("destroy-hooks-two-weights",
		cr(0, []int{0}, plain(0, true), hookTask(0, false, -5, false), hookTask(0, false, 5, false)),
		Op{K: "destroy", E: 0},
		Op{K: "cleanup"})
	// C04_detector_race_refuted: both creations take their snapshot before either is inserted
	add("detector-race",
		Op{K: "snap", E: 0},
		cr(1, []int{1}, plain(1, true)),
		Op{K: "finish", E: 0, Spec: &Spec{Hosts: []int{0}, Roles: []Role{plain(0, true)}}},
		Op{K: "destroy", E: 0}, Op{K: "destroy", E: 1})
	// C06_failed_creation_refuted: a task still staging when the failed creation is cleaned up
	add("staging-dropped",
		Op{K: "create", E: 0, Spec: &Spec{Hosts: []int{2}, Roles: []Role{plain(2, true), {Kind: KPlain, Host: 2, Crit: true, Launch: 1}, {Kind: KPlain, Host: 2, Crit: false, Launch: 2}}}},
		Op{K: "cleanup"})
	// serialised conflict: the holder is not disturbed
	add("detector-conflict-serial",
		cr(0, []int{0, 2}, plain(0, true), plain(2, false)),
		Op{K: "control", E: 0, Ev: 2},
		cr(1, []int{1, 2}, plain(1, true)),
		cr(2, []int{3}, plain(3, true), plain(0, false)),
		Op{K: "kill", Ids: []int{tidOf(0, 0), tidOf(0, 1), tidOf(2, 0)}},
		Op{K: "cleanup"},
		Op{K: "destroy", E: 2, Keep: true},
		Op{K: "control", E: 0, Ev: 3},
		Op{K: "cleanup"},
		Op{K: "destroy", E: 0})
	// after_DESTROY hooks shadow DESTROY hooks of the same weight; calls and tasks mixed; one weight
	add("destroy-hooks-shadow",
		cr(0, []int{3}, plain(3, true), plain(4, false), hookTask(3, false, 5, false), hookCall(true, 5), hookCall(false, 0), hookTask(4, true, 7, true), Role{Kind: KPend}),
		Op{K: "destroy", E: 0})
	add("destroy-hooks-one-weight",
		cr(0, []int{2}, plain(2, true), hookTask(2, false, 3, false), hookTask(2, false, 3, true), hookCall(false, 3)),
		Op{K: "control", E: 0, Ev: 2},
		Op{K: "destroy", E: 0, Allow: true})
	// destroy in every state / flag combination
	add("destroy-running-not-allowed",
		cr(0, []int{0}, plain(0, true), plain(1, false)),
		Op{K: "control", E: 0, Ev: 2},
		Op{K: "destroy", E: 0},
		Op{K: "destroy", E: 0})
	add("destroy-running-stop-fails",
		cr(0, []int{0}, plain(0, true), plain(1, true), Role{Kind: KPend}),
		Op{K: "control", E: 0, Ev: 2},
		Op{K: "destroy", E: 0, Allow: true, Keep: true, Fail: true})
	add("destroy-reset-fails-keep",
		cr(0, []int{4}, plain(4, true), plain(3, true)),
		Op{K: "destroy", E: 0, Keep: true, Fail: true},
		Op{K: "cleanup"})
	add("destroy-force-keep-running",
		cr(0, []int{1}, plain(1, true), plain(0, false)),
		Op{K: "control", E: 0, Ev: 2},
		Op{K: "destroy", E: 0, Force: true, Keep: true},
		cr(1, []int{0}, plain(1, true)))
	add("destroy-error-state",
		cr(0, []int{2}, plain(2, true), plain(2, true)),
		Op{K: "control", E: 0, Ev: 2, Fail: true},
		Op{K: "control", E: 0, Ev: 3},
		Op{K: "destroy", E: 0, Keep: true})
	add("destroy-deployed",
		cr(0, []int{2}, plain(2, true), Role{Kind: KPend}),
		Op{K: "control", E: 0, Ev: 4},
		Op{K: "control", E: 0, Ev: 1},
		Op{K: "control", E: 0, Ev: 4},
		Op{K: "destroy", E: 0})
	// creation failing at each stage
	add("create-missing-template", Op{K: "create", E: 0, Spec: &Spec{Hosts: []int{0}, Fail: 1, Roles: []Role{plain(0, true)}}})
	add("create-template-error",
		cr(1, []int{3}, plain(3, true)),
		Op{K: "destroy", E: 1, Keep: true},
		Op{K: "create", E: 0, Spec: &Spec{Hosts: []int{0}, Fail: 2, Roles: []Role{plain(0, true)}}})
	add("create-host-without-detector", Op{K: "create", E: 0, Spec: &Spec{Hosts: []int{0, 5}, Fail: 3, Roles: []Role{plain(0, true)}}})
	add("create-configure-error",
		Op{K: "create", E: 0, Spec: &Spec{Hosts: []int{0}, Roles: []Role{plain(0, true), {Kind: KPlain, Host: 1, Crit: true, Cfg: true}, hookTask(0, false, 1, false), hookCall(false, 1), {Kind: KPend}}}})
	add("create-configure-error-noncritical",
		Op{K: "create", E: 0, Spec: &Spec{Hosts: []int{0}, Roles: []Role{plain(0, true), plain(0, true), {Kind: KPlain, Host: 1, Crit: false, Cfg: true}}}},
		Op{K: "destroy", E: 0})
	add("create-launch-failure",
		Op{K: "create", E: 0, Spec: &Spec{Hosts: []int{0}, Roles: []Role{plain(0, true), {Kind: KPlain, Host: 1, Crit: true, Launch: 1}, hookTask(0, false, 1, false)}}})
	add("task-dies",
		cr(0, []int{0}, plain(0, true), plain(0, false), hookTask(0, false, 2, false)),
		Op{K: "dies", T: tidOf(0, 1)},
		Op{K: "dies", T: tidOf(0, 2)},
		Op{K: "destroy", E: 0})
	// seeded change C06-1: an executor / agent failure leaves tasks unlocked but still parented; a
	// forced keep-tasks destroy must clear the parent (they stay in the roster, unowned)
	add("xfail-destroy-force-keep",
		cr(0, []int{0}, plain(0, true), plain(1, false), hookTask(1, false, 2, false)),
		Op{K: "xfail", T: tidOf(0, 1)},
		Op{K: "destroy", E: 0, Force: true, Keep: true},
		Op{K: "cleanup"})
	add("xfail-destroy-plain",
		cr(0, []int{2}, plain(2, true), plain(3, false), plain(3, false)),
		Op{K: "control", E: 0, Ev: 2},
		Op{K: "xfail", T: tidOf(0, 2)},
		Op{K: "destroy", E: 0, Allow: true})
	add("xfail-agent-two-envs",
		cr(0, []int{0}, plain(0, true), plain(4, false)),
		cr(1, []int{2}, plain(2, true), plain(4, false), hookTask(4, false, -5, false)),
		Op{K: "xfail", T: tidOf(0, 1), Agent: true},
		Op{K: "destroy", E: 0, Force: true, Keep: true},
		Op{K: "control", E: 1, Ev: 2},
		Op{K: "destroy", E: 1, Force: true, Keep: true},
		Op{K: "cleanup"})
	// seeded change C04-2: a status update from the master must not unlock an owned task
	add("recon-then-others",
		cr(0, []int{0}, plain(0, true), plain(1, false)),
		cr(1, []int{2}, plain(2, true), hookTask(2, false, 1, false)),
		Op{K: "recon"},
		Op{K: "cleanup"},
		cr(2, []int{3}, plain(3, true)),
		Op{K: "kill", Ids: []int{tidOf(0, 0), tidOf(1, 0)}},
		Op{K: "control", E: 0, Ev: 2},
		Op{K: "destroy", E: 2},
		Op{K: "destroy", E: 0, Allow: true},
		Op{K: "destroy", E: 1})
	add("reconnect-then-cleanup",
		cr(0, []int{0}, plain(0, true), plain(0, true)),
		Op{K: "control", E: 0, Ev: 2},
		Op{K: "recon", Reconn: true},
		Op{K: "cleanup"},
		Op{K: "control", E: 0, Ev: 3},
		Op{K: "destroy", E: 0})
	// seeded change C04-6: hosts that joined the inventory after the core started (cache proxy miss): the first
	// environment on such a host holds the host's detector, a second one on that detector is refused
	hs = append(hs, History{Late: []int{1}, Ops: []Op{
		cr(0, []int{1}, plain(1, true)),
		cr(1, []int{0}, plain(0, true)),
		cr(2, []int{2}, plain(2, true)),
		Op{K: "destroy", E: 0},
		cr(3, []int{0, 1}, plain(0, true), plain(1, false)),
		Op{K: "destroy", E: 3}, Op{K: "destroy", E: 2}}})
	ks = append(ks, "corpus:late-host-first-use")
	hs = append(hs, History{Late: []int{3, 2}, Ops: []Op{
		cr(0, []int{0, 3}, plain(0, true), plain(3, true)),
		cr(1, []int{4}, plain(4, true)),
		cr(2, []int{2}, plain(2, true)),
		cr(3, []int{2, 4}, plain(4, true)),
		Op{K: "destroy", E: 0}, Op{K: "destroy", E: 2},
		cr(4, []int{3}, plain(3, true)),
		Op{K: "destroy", E: 4}}})
	ks = append(ks, "corpus:late-hosts-mixed-with-cached")
	// seeded change C06-6: several calls pending for one await trigger - other weights, the same weight, another
	// trigger - started at different moments; every one of them has to be cancelled by the teardown
	pendAt := func(tw, an, aw int) Role { return Role{Kind: KPend, TW: tw, AN: an, AW: aw} }
	leaveAt := func(st, an, aw int) Role { return Role{Kind: KLeave, St: st, AN: an, AW: aw} }
	add("pending-two-await-weights",
		cr(0, []int{0}, plain(0, true), pendAt(-4, 0, 0), pendAt(0, 0, 10)),
		Op{K: "destroy", E: 0})
	add("pending-leave-other-weight",
		cr(0, []int{1}, plain(1, true), pendAt(0, 0, 0), pendAt(3, 0, 0), leaveAt(2, 0, 5), pendAt(0, 1, 0)),
		Op{K: "destroy", E: 0, Force: true})
	add("pending-many-failed-creation",
		Op{K: "create", E: 0, Spec: &Spec{Hosts: []int{3}, Roles: []Role{plain(3, true), {Kind: KPlain, Host: 3, Crit: true, Cfg: true},
			pendAt(-4, 0, 0), pendAt(0, 0, -2), pendAt(6, 1, 0), pendAt(6, 0, 0), leaveAt(4, 0, 7)}}},
		cr(1, []int{0}, plain(0, true), pendAt(0, 1, 3), pendAt(0, 1, 0), leaveAt(2, 1, 9), leaveAt(3, 0, 0)),
		Op{K: "control", E: 1, Ev: 2},
		Op{K: "control", E: 1, Ev: 3},
		Op{K: "destroy", E: 1})
	// seeded change C06-2: calls started by the leave_<state> hooks the teardown itself runs
	add("leave-call-forced-configured",
		cr(0, []int{0}, plain(0, true), leaveCall(2), Role{Kind: KPend}),
		Op{K: "destroy", E: 0, Force: true})
	add("leave-call-forced-running",
		cr(0, []int{2}, plain(2, true), leaveCall(3), leaveCall(3), leaveCall(2), hookCall(false, 0)),
		Op{K: "control", E: 0, Ev: 2},
		Op{K: "destroy", E: 0, Force: true, Keep: true},
		Op{K: "cleanup"})
	add("leave-call-failed-creation",
		Op{K: "create", E: 0, Spec: &Spec{Hosts: []int{3}, Roles: []Role{plain(3, true), {Kind: KPlain, Host: 3, Crit: true, Cfg: true}, leaveCall(4), {Kind: KPend}}}},
		Op{K: "create", E: 1, Spec: &Spec{Hosts: []int{0}, Roles: []Role{plain(0, true), {Kind: KPlain, Host: 0, Crit: true, Launch: 1}, leaveCall(4), leaveCall(2)}}})
	add("leave-call-graceful",
		cr(0, []int{0}, plain(0, true), leaveCall(2), leaveCall(3), leaveCall(4)),
		Op{K: "control", E: 0, Ev: 2},
		Op{K: "control", E: 0, Ev: 3},
		Op{K: "control", E: 0, Ev: 2, Fail: true},
		Op{K: "destroy", E: 0, Allow: true})
	// seeded change C06-3 / finding C06-d: a deployment that fails after some tasks were launched
	add("partial-deployment",
		Op{K: "create", E: 0, Spec: &Spec{Hosts: []int{0}, Fail: 6, Roles: []Role{plain(0, true), plain(1, false), hookTask(1, false, 2, false), {Kind: KPlain, Host: 2, Launch: 2}}}},
		Op{K: "cleanup"},
		cr(1, []int{0}, plain(0, true)),
		Op{K: "destroy", E: 1})
	// seeded change C06-4: a KILL call that the master refuses for one task (first / middle / last of the
	// request) must not change what happens to the others - destroy, failed creation, cleanup
	add("kill-refused-destroy-first",
		cr(0, []int{0}, plain(0, true), plain(0, false), plain(1, false), hookTask(1, false, 2, false)),
		Op{K: "refuse", Ids: []int{tidOf(0, 0)}},
		Op{K: "destroy", E: 0},
		Op{K: "cleanup"},
		cr(1, []int{2}, plain(2, true)),
		Op{K: "destroy", E: 1})
	add("kill-refused-destroy-middle-running",
		cr(0, []int{2}, plain(2, true), plain(2, true), plain(3, false)),
		Op{K: "control", E: 0, Ev: 2},
		Op{K: "refuse", Ids: []int{tidOf(0, 1)}},
		Op{K: "destroy", E: 0, Force: true},
		Op{K: "kill", Ids: []int{tidOf(0, 0), tidOf(0, 1), tidOf(0, 2)}},
		Op{K: "cleanup"})
	add("kill-refused-failed-creation",
		Op{K: "create", E: 0, Spec: &Spec{Hosts: []int{3}, Refuse: []int{0}, Roles: []Role{plain(3, false), plain(3, true), {Kind: KPlain, Host: 3, Crit: true, Launch: 1}, {Kind: KPlain, Host: 4, Launch: 2}}}},
		Op{K: "cleanup"})
	add("kill-refused-failed-configure-last",
		Op{K: "create", E: 0, Spec: &Spec{Hosts: []int{0}, Refuse: []int{2}, Roles: []Role{plain(0, true), {Kind: KPlain, Host: 0, Crit: true, Cfg: true}, plain(1, false)}}},
		Op{K: "cleanup"})
	add("kill-refused-cleanup",
		cr(0, []int{1}, plain(1, true), plain(1, false), plain(0, false)),
		Op{K: "destroy", E: 0, Keep: true},
		Op{K: "refuse", Ids: []int{tidOf(0, 1)}},
		Op{K: "cleanup"},
		Op{K: "cleanup"})
	// seeded change C04-4 / fix C04-b: the claim path of reuseUnlockedTasks=true.  Unlocked running tasks exist
	// at acquisition time only when they were released between the pre-deployment cleanup of a creation and
	// its deployment (an overlapped creation); tasks that are still owned must never be claimed, in any state.
	add("reuse-claims-released",
		cr(0, []int{0}, shared(0, 3, true), plain(0, false)),
		Op{K: "snap", E: 1},
		Op{K: "destroy", E: 0, Keep: true},
		Op{K: "finish", E: 1, Spec: &Spec{Hosts: []int{2}, Reuse: true, Roles: []Role{plain(1, false), shared(0, 3, true)}}},
		Op{K: "cleanup"})
	add("reuse-all-claimed",
		cr(0, []int{0}, shared(0, 3, true)),
		Op{K: "snap", E: 1},
		Op{K: "destroy", E: 0, Keep: true},
		Op{K: "finish", E: 1, Spec: &Spec{Hosts: []int{2}, Reuse: true, Roles: []Role{shared(0, 3, true)}}},
		Op{K: "cleanup"})
	add("reuse-owned-not-claimed",
		cr(0, []int{0}, shared(0, 3, true), shared(1, 9, false)),
		Op{K: "create", E: 1, Spec: &Spec{Hosts: []int{2}, Reuse: true, Roles: []Role{plain(2, true), shared(0, 3, false)}}},
		Op{K: "control", E: 0, Ev: 2},
		Op{K: "create", E: 2, Spec: &Spec{Hosts: []int{3}, Reuse: true, Roles: []Role{plain(3, true), shared(1, 9, false)}}},
		Op{K: "control", E: 0, Ev: 3},
		Op{K: "destroy", E: 1},
		Op{K: "destroy", E: 2, Force: true},
		Op{K: "destroy", E: 0})
	add("reuse-configured-left-behind",
		cr(0, []int{0}, shared(0, 3, true), plain(0, false)),
		Op{K: "snap", E: 1},
		Op{K: "destroy", E: 0, Force: true, Keep: true},
		Op{K: "finish", E: 1, Spec: &Spec{Hosts: []int{2}, Reuse: true, Roles: []Role{plain(1, true), shared(0, 3, false)}}},
		Op{K: "cleanup"})
	// seeded change C04-5: a cleanup must not act on a list of unlocked tasks it computed before it waited.
	// A kill request for an unowned task is held in the master (KillTasks keeps its mutex); a cleanup runs;
	// a task whose executor had failed is locked again by a TASK_RUNNING update; the kill request ends.
	add("cleanup-behind-held-kill",
		cr(0, []int{0}, plain(0, true), plain(1, false)),
		cr(1, []int{2}, plain(2, true)),
		Op{K: "destroy", E: 1, Keep: true},
		Op{K: "xfail", T: tidOf(0, 1)},
		Op{K: "killhold", Ids: []int{tidOf(1, 0)}},
		Op{K: "relock", T: tidOf(0, 1)},
		Op{K: "release"},
		Op{K: "control", E: 0, Ev: 2},
		Op{K: "destroy", E: 0, Allow: true})
	add("cleanup-waits-relock-in-between",
		cr(0, []int{0}, plain(0, true), plain(1, false), plain(1, false)),
		cr(1, []int{2}, plain(2, true), plain(3, false)),
		Op{K: "destroy", E: 1, Keep: true},
		Op{K: "xfail", T: tidOf(0, 1)},
		Op{K: "killhold", Ids: []int{tidOf(1, 0)}},
		Op{K: "cleanup"},
		Op{K: "relock", T: tidOf(0, 1)},
		Op{K: "release"},
		Op{K: "cleanup"},
		Op{K: "destroy", E: 0})
	// seeded change C04-7: the kill routine must not write back a roster it read before its KILL calls.  A kill
	// request for an unowned task is held in the master; meanwhile another environment is created (its tasks
	// are written to the roster), transitions, a cleanup runs; the kill request ends: every owned task is
	// still in the roster
	add("create-behind-held-kill",
		cr(0, []int{0}, plain(0, true)),
		cr(1, []int{2}, plain(2, true), plain(3, false)),
		Op{K: "destroy", E: 1, Keep: true},
		Op{K: "killhold", Ids: []int{tidOf(1, 0)}},
		cr(2, []int{3}, plain(3, true), plain(4, false)),
		Op{K: "release"},
		Op{K: "control", E: 2, Ev: 2},
		Op{K: "cleanup"},
		Op{K: "destroy", E: 2, Allow: true},
		Op{K: "destroy", E: 0})
	add("two-creations-behind-held-kill",
		cr(0, []int{2}, plain(2, true), plain(2, false)),
		Op{K: "destroy", E: 0, Keep: true},
		Op{K: "killhold", Ids: []int{tidOf(0, 1)}},
		cr(1, []int{0}, plain(0, true), plain(1, true)),
		Op{K: "control", E: 1, Ev: 2},
		cr(2, []int{3}, plain(4, true)),
		Op{K: "release"},
		Op{K: "recon"},
		Op{K: "control", E: 1, Ev: 3},
		Op{K: "destroy", E: 1}, Op{K: "destroy", E: 2})
	add("create-undeployable",
		Op{K: "create", E: 0, Spec: &Spec{Hosts: []int{0}, Fail: 4, Roles: []Role{plain(0, true)}}},
		cr(1, []int{0}, plain(0, true)))
	return hs, ks
}

// ---------------------------------------------------------------- random histories

type genEnv struct {
	spec    *Spec
	alive   bool
	state   int // guessed environment state: 2 CONFIGURED 3 RUNNING 1 DEPLOYED 4 ERROR
	pending bool
}

func pickHosts(r *gen.Rand, envs []*genEnv, conflict bool) []int {
	// detectors believed to be in use
	used := map[int]bool{}
	for _, e := range envs {
		if e != nil && (e.alive || e.pending) {
			for _, d := range detsOf(e.spec.Hosts) {
				used[d] = true
			}
		}
	}
	var cand []int
	for h := 0; h < 5; h++ {
		if used[hostDet[h]] == conflict {
			cand = append(cand, h)
		}
	}
	if len(cand) == 0 {
		for h := 0; h < 5; h++ {
			cand = append(cand, h)
		}
	}
	n := 1
	if r.Chance(1, 3) {
		n = 2
	}
	seen := map[int]bool{}
	var out []int
	for i := 0; i < n; i++ {
		h := cand[r.Intn(len(cand))]
		if !seen[h] {
			seen[h] = true
			out = append(out, h)
		}
	}
	if !conflict && r.Chance(1, 6) {
		// one more host of any kind
		h := r.Intn(5)
		if !seen[h] {
			out = append(out, h)
		}
	}
	return out
}

func genSpec(r *gen.Rand, envs []*genEnv, allowSlow bool) *Spec {
	s := &Spec{Hosts: pickHosts(r, envs, r.Chance(1, 3))}
	anyHost := func() int {
		if r.Chance(2, 3) {
			return s.Hosts[r.Intn(len(s.Hosts))]
		}
		return r.Intn(5)
	}
	s.Roles = append(s.Roles, plain(s.Hosts[0], true))
	for i, n := 0, r.Intn(3); i < n; i++ {
		s.Roles = append(s.Roles, plain(anyHost(), r.Chance(1, 2)))
	}
	weights := []int{-5, 0, 5, 5, 0}
	nh := []int{0, 0, 1, 2, 3, 4}[r.Intn(6)]
	for i := 0; i < nh; i++ {
		w := weights[r.Intn(len(weights))]
		after := r.Chance(1, 4)
		if r.Chance(3, 5) {
			s.Roles = append(s.Roles, hookTask(anyHost(), after, w, r.Chance(1, 3)))
		} else {
			s.Roles = append(s.Roles, hookCall(after, w))
		}
	}
	// pending calls: often several per await trigger (other weights, the same weight, another trigger), started
	// at different moments (weights of before_CONFIGURE, the leave_<state> hooks)
	tws, aws := []int{0, 0, -4, 6}, []int{0, 0, 10, -2, 5}
	if r.Chance(1, 3) {
		for i, n := 0, []int{1, 1, 2, 3}[r.Intn(4)]; i < n; i++ {
			s.Roles = append(s.Roles, Role{Kind: KPend, TW: tws[r.Intn(len(tws))], AN: r.Intn(2), AW: aws[r.Intn(len(aws))]})
		}
	}
	if r.Chance(1, 4) {
		for i, n := 0, r.Range(1, 2); i < n; i++ {
			l := leaveCall([]int{2, 3, 4, 2, 3}[r.Intn(5)])
			l.AN, l.AW = r.Intn(2), aws[r.Intn(len(aws))]
			s.Roles = append(s.Roles, l)
		}
	}
	// shuffle everything but keep a critical plain role somewhere
	p := r.Perm(len(s.Roles))
	roles := make([]Role, len(s.Roles))
	for i, j := range p {
		roles[i] = s.Roles[j]
	}
	s.Roles = roles
	taskIdx := []int{}
	for i, ro := range s.Roles {
		if ro.Kind == KPlain || ro.Kind == KHookTask {
			taskIdx = append(taskIdx, i)
		}
	}
	switch x := r.Intn(100); {
	case x < 4:
		s.Fail = 1
	case x < 8:
		s.Fail = 2
	case x < 12:
		s.Fail = 3
		s.Hosts = append(s.Hosts, 5)
	case x < 13 && allowSlow:
		s.Fail = []int{4, 6, 6}[r.Intn(3)]
	case x < 20:
		// one critical task dies right after launch; maybe another one is still staging then
		i := taskIdx[r.Intn(len(taskIdx))]
		s.Roles[i].Launch = 1
		s.Roles[i].Crit = true
		if len(taskIdx) > 1 && r.Chance(1, 2) {
			j := taskIdx[r.Intn(len(taskIdx))]
			if j != i {
				s.Roles[j].Launch = 2
			}
		}
	case x < 28:
		i := taskIdx[r.Intn(len(taskIdx))]
		s.Roles[i].Cfg = true
		s.Roles[i].Crit = true
	case x < 34 && len(taskIdx) >= 3:
		// a non-critical refusal does not fail the creation (with two or more other targets)
		i := taskIdx[r.Intn(len(taskIdx))]
		if !(s.Roles[i].Kind == KPlain && s.Roles[i].Crit) {
			s.Roles[i].Cfg = true
			s.Roles[i].Crit = false
		}
	}
	if specFails(s) && s.Fail != 6 && r.Chance(1, 4) {
		for i, ro := range s.Roles {
			if ro.Kind == KPlain && ro.Launch == 0 && !ro.Cfg && r.Chance(1, 2) {
				s.Refuse = append(s.Refuse, i)
			}
		}
	}
	return s
}

// shareClasses: up to two plain roles of the workflow load one of three shared classes (at most one role
// per class; class k runs on host k%5), and the creation may claim running unlocked tasks
func shareClasses(r *gen.Rand, s *Spec) {
	s.Reuse = r.Chance(3, 4)
	used := map[int]bool{}
	n := 0
	for i := range s.Roles {
		ro := &s.Roles[i]
		if ro.Kind != KPlain || ro.Cfg || ro.Launch != 0 || n >= 2 || !r.Chance(1, 2) {
			continue
		}
		ch := []int{3, 9, 11}[r.Intn(3)]
		if used[ch] {
			continue
		}
		used[ch] = true
		ro.Ch = ch
		ro.Host = ch % 5
		n++
	}
}

func specFails(s *Spec) bool {
	if s.Fail != 0 {
		return true
	}
	for _, ro := range s.Roles {
		if ro.Launch == 1 || (ro.Cfg && ro.Crit) {
			return true
		}
	}
	return false
}

func randomHistory(r *gen.Rand, allowSlow bool) (History, string) {
	var h History
	// a history has either executor / agent failures or refused KILL calls (a task whose executor failed is
	// not ACTIVE for the core but still live at the simulated master)
	refusing := r.Chance(1, 3)
	sharing := r.Chance(1, 4) // environments of this history share task classes and are created with reuseUnlockedTasks
	envs := make([]*genEnv, 0, 4)
	kind := "rand"
	raced := false
	nops := r.Range(5, 12)
	knownTasks := func() []int {
		var out []int
		for e, ge := range envs {
			if ge == nil || ge.pending || specFails(ge.spec) {
				continue
			}
			for i, ro := range ge.spec.Roles {
				if ro.Kind == KPlain || ro.Kind == KHookTask {
					out = append(out, tidOf(e, i))
				}
			}
		}
		return out
	}
	aliveIdx := func() []int {
		var out []int
		for e, ge := range envs {
			if ge != nil && ge.alive {
				out = append(out, e)
			}
		}
		return out
	}
	conflicts := func(s *Spec) bool {
		for _, d := range detsOf(s.Hosts) {
			for _, ge := range envs {
				if ge != nil && ge.alive {
					for _, d2 := range detsOf(ge.spec.Hosts) {
						if d == d2 {
							return true
						}
					}
				}
			}
		}
		return false
	}
	var pendingFinish []int
	held, releaseAt := false, 0
	for len(h.Ops) < nops {
		if held && len(h.Ops) >= releaseAt {
			h.Ops = append(h.Ops, Op{K: "release"})
			held = false
			continue
		}
		x := r.Intn(100)
		al := aliveIdx()
		if held {
			// KillTasks keeps its mutex: only requests that do not need it (transitions, cleanup, reconciliation)
			switch {
			case len(al) > 0 && r.Chance(1, 2):
				x = 50
			case r.Chance(1, 4):
				x = 94
			default:
				x = 85
			}
		}
		switch {
		case (x < 30 || len(al) == 0 && len(pendingFinish) == 0) && len(envs) < 4:
			s := genSpec(r, envs, allowSlow)
			if sharing {
				shareClasses(r, s)
			}
			ok := !specFails(s) && !conflicts(s)
			envs = append(envs, &genEnv{spec: s, alive: ok, state: 2})
			h.Ops = append(h.Ops, Op{K: "create", E: len(envs) - 1, Spec: s})
		case x < 38 && len(envs) < 4 && len(pendingFinish) == 0:
			// overlapped creation: snapshot now, the rest later
			s := genSpec(r, envs, false)
			if s.Fail == 1 || s.Fail == 2 || s.Fail == 4 || s.Fail == 6 {
				s.Fail = 0
			}
			if sharing {
				shareClasses(r, s)
			}
			envs = append(envs, &genEnv{spec: s, pending: true})
			pendingFinish = append(pendingFinish, len(envs)-1)
			h.Ops = append(h.Ops, Op{K: "snap", E: len(envs) - 1})
			raced = true
		case x < 46 && len(pendingFinish) > 0:
			e := pendingFinish[0]
			pendingFinish = pendingFinish[1:]
			envs[e].pending = false
			envs[e].alive = !specFails(envs[e].spec)
			envs[e].state = 2
			h.Ops = append(h.Ops, Op{K: "finish", E: e, Spec: envs[e].spec})
		case x < 64 && len(al) > 0:
			e := al[r.Intn(len(al))]
			ge := envs[e]
			ev := 0
			if r.Chance(4, 5) {
				switch ge.state {
				case 2:
					ev = []int{2, 4, 2}[r.Intn(3)]
				case 3:
					ev = 3
				case 1:
					ev = 1
				default:
					ev = r.Range(1, 4)
				}
			} else {
				ev = r.Range(1, 4)
			}
			fail := r.Chance(1, 10)
			valid := (ev == 1 && ge.state == 1) || (ev == 2 && ge.state == 2) || (ev == 3 && ge.state == 3) || (ev == 4 && ge.state == 2)
			if valid && !fail {
				ge.state = map[int]int{1: 2, 2: 3, 3: 2, 4: 1}[ev]
			} else {
				ge.state = 4
			}
			h.Ops = append(h.Ops, Op{K: "control", E: e, Ev: ev, Fail: fail})
		case x < 82 && len(al) > 0:
			e := al[r.Intn(len(al))]
			envs[e].alive = false
			d := Op{K: "destroy", E: e, Force: r.Chance(1, 4), Allow: r.Chance(2, 5), Keep: r.Chance(1, 3), Fail: r.Chance(1, 10)}
			h.Ops = append(h.Ops, d)
			if d.Keep && !held && len(envs) < 4 && len(pendingFinish) == 0 && r.Chance(1, 2) {
				// a kill request for one of the kept tasks is held in the master while another environment is
				// created (and more happens); it ends a few requests later
				// (a creation that fails would tear down through KillTasks and wait for the held request)
				ns := genSpec(r, envs, false)
				for j := range ns.Roles {
					ns.Roles[j].Launch, ns.Roles[j].Cfg = 0, false
				}
				ns.Refuse = nil
				for i, ro := range envs[e].spec.Roles {
					if ro.Kind == KPlain && ro.Launch == 0 && ns.Fail == 0 && !conflicts(ns) && !specFails(envs[e].spec) {
						h.Ops = append(h.Ops, Op{K: "killhold", Ids: []int{tidOf(e, i)}})
						envs = append(envs, &genEnv{spec: ns, alive: true, state: 2})
						h.Ops = append(h.Ops, Op{K: "create", E: len(envs) - 1, Spec: ns})
						held, releaseAt = true, len(h.Ops)+r.Intn(3)
						break
					}
				}
			}
		case x < 84 && len(envs) > 0:
			// an environment that is gone, or was never there
			h.Ops = append(h.Ops, Op{K: "destroy", E: r.Intn(len(envs) + 1), Force: r.Chance(1, 2)})
		case x < 89:
			h.Ops = append(h.Ops, Op{K: "cleanup"})
		case x < 94:
			kt := knownTasks()
			var ids []int
			for _, t := range kt {
				if r.Chance(1, 2) {
					ids = append(ids, t)
				}
			}
			if r.Chance(1, 5) {
				ids = append(ids, tidOf(7, 1)) // no such task
			}
			if len(ids) > 0 {
				h.Ops = append(h.Ops, Op{K: "kill", Ids: ids})
			}
		case x < 96:
			// status updates from the master for every running task (1/4 after a dropped connection)
			if len(al) > 0 {
				// no re-subscription after an executor failure: the simulated master still runs those tasks
				// and would report them as running again (a state the model of the roster does not have)
				reconn := r.Chance(1, 4)
				for _, p := range h.Ops {
					if p.K == "xfail" {
						reconn = false
					}
				}
				if held {
					// the master still runs the task whose KILL it holds and would report it: the core answers a
					// reconciliation update for a task it does not know with a KILL of its own
					reconn = false
				}
				h.Ops = append(h.Ops, Op{K: "recon", Reconn: reconn})
				if r.Chance(1, 2) {
					h.Ops = append(h.Ops, Op{K: "cleanup"})
				}
			}
		case x < 98 && refusing:
			// the master starts refusing the KILL calls for some running plain tasks
			var cand []int
			for e, ge := range envs {
				if ge == nil || ge.pending || specFails(ge.spec) {
					continue
				}
				for i, ro := range ge.spec.Roles {
					if ro.Kind == KPlain && ro.Launch == 0 {
						cand = append(cand, tidOf(e, i))
					}
				}
			}
			var ids []int
			for _, t := range cand {
				if r.Chance(1, 3) {
					ids = append(ids, t)
				}
			}
			if len(ids) > 0 {
				h.Ops = append(h.Ops, Op{K: "refuse", Ids: ids})
			}
		case x < 98:
			// the executor (1/4: the agent) of a non-critical task fails; the harness skips the
			// injection when a critical task shares it
			var cand []int
			for e, ge := range envs {
				if ge == nil || ge.pending || !ge.alive {
					continue
				}
				for i, ro := range ge.spec.Roles {
					if (ro.Kind == KPlain || ro.Kind == KHookTask) && !ro.Crit {
						cand = append(cand, tidOf(e, i))
					}
				}
			}
			if len(cand) > 0 {
				t := cand[r.Intn(len(cand))]
				h.Ops = append(h.Ops, Op{K: "xfail", T: t, Agent: r.Chance(1, 4)})
				if r.Chance(1, 2) && envs[t/64].alive {
					envs[t/64].alive = false
					h.Ops = append(h.Ops, Op{K: "destroy", E: t / 64, Force: true, Keep: true})
				}
			}
		default:
			// a non-critical task dies
			var cand []int
			for e, ge := range envs {
				if ge == nil || ge.pending || specFails(ge.spec) {
					continue
				}
				for i, ro := range ge.spec.Roles {
					if (ro.Kind == KPlain || ro.Kind == KHookTask) && !ro.Crit {
						cand = append(cand, tidOf(e, i))
					}
				}
			}
			if len(cand) > 0 {
				h.Ops = append(h.Ops, Op{K: "dies", T: cand[r.Intn(len(cand))]})
			}
		}
	}
	if held {
		h.Ops = append(h.Ops, Op{K: "release"})
	}
	for _, e := range pendingFinish {
		h.Ops = append(h.Ops, Op{K: "finish", E: e, Spec: envs[e].spec})
	}
	if raced {
		kind = "rand:overlapped"
	}
	return h, kind
}

func generate(o gen.Opts, prop string) ([]History, []string) {
	hs, ks := corpus(o.Tier)
	hh := fnv.New64a()
	hh.Write([]byte(prop))
	r := gen.NewRand(o.Seed ^ hh.Sum64())
	slowBudget := 1
	if o.Tier == "thorough" {
		slowBudget = 12
	}
	for len(hs) < o.N {
		h, k := randomHistory(r.Fork(), slowBudget > 0)
		// half of the histories: one or two hosts are not in the inventory when the core starts
		lr := r.Fork()
		if lr.Chance(1, 2) {
			h.Late = []int{lr.Intn(5)}
			if lr.Chance(1, 3) {
				h.Late = append(h.Late, lr.Intn(5))
			}
		}
		for _, op := range h.Ops {
			if op.Spec != nil && (op.Spec.Fail == 4 || op.Spec.Fail == 6) {
				slowBudget--
			}
		}
		hs = append(hs, h)
		ks = append(ks, k)
	}
	return hs, ks
}
