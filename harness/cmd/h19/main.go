// h19: correspondence harness for C19 (Kafka event writer).
//
// Drives the real common/event.KafkaWriter (constructed by NewWriterWithTopic through the verif
// hook, with the write function replaced by one that records every batch and then blocks on a
// gate owned by the harness).  A case is a forced schedule:
//
//	pub     one WriteEvent / WriteEventWithTimestamp by producer p (own goroutine per producer)
//	burst   several producers publish concurrently while the writer sits in the write function
//	release the write function returns (end of a broker stall)
//	close   Close() is called in its own goroutine
//	full    the batching loop is stalled (the harness takes the FifoBuffer mutex through the verif
//	        hook, so the loop stops at its next Push) while producers publish numbered events
//	        from their goroutines; when nothing moves any more (every producer has returned or is
//	        parked in a channel send, the channel is full, the loop sits in Push) the number of
//	        WriteEvent calls that have returned is recorded — unchanged code: capacity + 1, the
//	        channel plus the message in the loop's hand; the model: enabledness of Publish —,
//	        then the mutex is given back and everything drains.  Small ones (the burst fits) are
//	        ordinary operations of a schedule; the long ones (capacity + k events, "merge" cases)
//	        are written as CFull cases, which Coq compares with the closed form proved for OFull.
//
// After every operation the harness waits until nothing moves any more (channel empty, every
// accepted message either recorded or in the FIFO, writer inside the write function or parked in
// cond.Wait, batching loop signalled, Close returned), which is the coarse schedule
// EventWriter.coarse_sched of the Coq model.  Observed per operation: result of the call
// (returned / panicked / blocked), batches that reached the write function (producer, tag, event
// type, message key — decoded from the real protobuf payload), whether Close returned, and — when
// the gate is released — the very same []kafka.Message decoded AGAIN at the return of the write
// function (what the broker really saw; a batch must not change while it is being written).
//
// A second kind of case races Close against the writer without forcing anything (before the
// FifoBuffer `released` flag Close could hang there: lost wake-up) and reports how many trials
// hung / lost events; any hang is a violation (monitor code 10).
package main

import (
	"bytes"
	"encoding/json"
	"fmt"
	"io"
	"os"
	"os/exec"
	"path/filepath"
	"runtime"
	"sort"
	"strconv"
	"strings"
	"sync"
	"sync/atomic"
	"time"

	"github.com/AliceO2Group/Control/common/event"
	pb "github.com/AliceO2Group/Control/common/protos"
	"github.com/segmentio/kafka-go"
	"github.com/sirupsen/logrus"
	"google.golang.org/protobuf/proto"

	"verif/harness/internal/gen"
)

// ---------- inputs ----------

type evIn struct {
	P    int    `json:"p"`
	K    int    `json:"k"` // 0..8 event types, 9.. unsupported values
	T    int    `json:"t"` // tag: publication index of producer p
	Env  string `json:"env,omitempty"`
	Task string `json:"task,omitempty"`
}

type opIn struct {
	Op    string  `json:"op"` // pub | burst | release | close | full
	Ev    *evIn   `json:"ev,omitempty"`
	Burst []evIn  `json:"burst,omitempty"` // program order; each producer publishes its own events in this order
	Full  *fullIn `json:"full,omitempty"`
}

// fullProd: producer P publishes N events (N = capacity + Over when Over is given) with tags
// T0, T0+1, ... from its own goroutine.
type fullProd struct {
	P    int  `json:"p"`
	T0   int  `json:"t0"`
	N    int  `json:"n,omitempty"`
	Over *int `json:"over,omitempty"`
}

type fullIn struct {
	K    int    `json:"k"` // event type of every event (0..8)
	Env  string `json:"env,omitempty"`
	Task string `json:"task,omitempty"`
	// Bulk: published first, by one producer alone (it must fit into the channel); then Prods
	// publish concurrently.  Still one stall of the batching loop.
	Bulk  *fullProd  `json:"bulk,omitempty"`
	Prods []fullProd `json:"prods"`
}

type raceIn struct {
	Mode   int    `json:"mode"`
	Trials int    `json:"trials"`
	Seed   uint64 `json:"seed"`
}

type caseIn struct {
	Ops []opIn `json:"ops,omitempty"`
	// Merge: the last operation is a long "full"; the case is written as CFull (observations of
	// all operations merged) instead of CSched
	Merge bool    `json:"merge,omitempty"`
	Race  *raceIn `json:"race,omitempty"`
	Reg   *regIn  `json:"registry,omitempty"` // a case of the per-topic writer registry (registry.go)
}

// ---------- observations ----------

type omsg struct {
	P    int     `json:"p"`
	T    int     `json:"t"`
	K    int     `json:"k"`
	Key  *string `json:"key"`
	Note string  `json:"note,omitempty"`
}

type opObs struct {
	Res     int      `json:"res"` // 0 returned, 1 nothing to do, 2 panicked, 3 blocked, 9 did not settle
	Batches [][]omsg `json:"batches,omitempty"`          // content when the write function was entered
	Closed  bool     `json:"close_returned,omitempty"`
	Left    [][]omsg `json:"at_return,omitempty"` // same slice, content when the write function returned
	Stall   [2]int   `json:"stall,omitempty"`     // full: WriteEvent calls returned while the batching loop was stalled, channel capacity
}

// ---------- events ----------

func idString(e evIn) string { return fmt.Sprintf("%d:%d", e.P, e.T) }

func parseID(s string) (int, int, bool) {
	i := strings.IndexByte(s, ':')
	if i < 0 {
		return 0, 0, false
	}
	p, e1 := strconv.Atoi(s[:i])
	t, e2 := strconv.Atoi(s[i+1:])
	return p, t, e1 == nil && e2 == nil
}

func tsOf(e evIn) time.Time { return time.Unix(0, int64(e.P)<<32|int64(e.T)) }

// buildEvent returns the value handed to the writer and whether its identity can only travel in
// the timestamp (then WriteEventWithTimestamp must be used).
func buildEvent(e evIn) (interface{}, bool) {
	id := idString(e)
	switch e.K {
	case 0:
		return &pb.Ev_MetaEvent_CoreStart{FrameworkId: id}, false
	case 1:
		return &pb.Ev_MetaEvent_MesosHeartbeat{}, true
	case 2:
		return &pb.Ev_MetaEvent_FrameworkEvent{FrameworkId: "fw", Message: id}, false
	case 3:
		return &pb.Ev_TaskEvent{Name: id, Taskid: e.Task, EnvironmentId: e.Env, State: "RUNNING", Status: "ACTIVE"}, false
	case 4:
		return &pb.Ev_RoleEvent{Name: id, EnvironmentId: e.Env, State: "RUNNING"}, false
	case 5:
		return &pb.Ev_EnvironmentEvent{EnvironmentId: e.Env, Message: id, State: "CONFIGURED", RunNumber: 7}, false
	case 6:
		return &pb.Ev_CallEvent{Func: id, EnvironmentId: e.Env}, false
	case 7:
		return &pb.Ev_IntegratedServiceEvent{Name: id, EnvironmentId: e.Env}, false
	case 8:
		return &pb.Ev_RunEvent{EnvironmentId: e.Env, Error: id, RunNumber: 7}, false
	}
	// values the type switch does not know
	switch e.T % 4 {
	case 0:
		return "a string", false
	case 1:
		return &pb.Event{}, false
	case 2:
		return nil, false
	default:
		return 42, false
	}
}

func publish(w *event.KafkaWriter, e evIn) {
	v, tsOnly := buildEvent(e)
	if tsOnly || e.T%2 == 1 {
		w.WriteEventWithTimestamp(v, tsOf(e))
	} else {
		w.WriteEvent(v)
	}
}

func decode(m kafka.Message) omsg {
	var ev pb.Event
	bad := func(note string) omsg { return omsg{P: 999999, T: 999999, K: 99, Note: note} }
	if err := proto.Unmarshal(m.Value, &ev); err != nil {
		return bad("payload does not unmarshal")
	}
	kind, id := -1, ""
	switch p := ev.Payload.(type) {
	case *pb.Event_CoreStartEvent:
		kind, id = 0, p.CoreStartEvent.GetFrameworkId()
	case *pb.Event_MesosHeartbeatEvent:
		kind = 1
		id = fmt.Sprintf("%d:%d", ev.TimestampNano>>32, ev.TimestampNano&0xffffffff)
	case *pb.Event_FrameworkEvent:
		kind, id = 2, p.FrameworkEvent.GetMessage()
	case *pb.Event_TaskEvent:
		kind, id = 3, p.TaskEvent.GetName()
	case *pb.Event_RoleEvent:
		kind, id = 4, p.RoleEvent.GetName()
	case *pb.Event_EnvironmentEvent:
		kind, id = 5, p.EnvironmentEvent.GetMessage()
	case *pb.Event_CallEvent:
		kind, id = 6, p.CallEvent.GetFunc()
	case *pb.Event_IntegratedServiceEvent:
		kind, id = 7, p.IntegratedServiceEvent.GetName()
	case *pb.Event_RunEvent:
		kind, id = 8, p.RunEvent.GetError()
	default:
		return bad("unknown payload type")
	}
	pp, tt, ok := parseID(id)
	if !ok {
		return bad("identity lost: " + id)
	}
	o := omsg{P: pp, T: tt, K: kind}
	if len(m.Key) > 0 {
		k := string(m.Key)
		o.Key = &k
	}
	return o
}

// ---------- goroutine inspection (is the writer parked in cond.Wait? is a batcher alive?) ----------

var leakedWaiters int // writers left for ever in cond.Wait by earlier (hung) cases

func stackCounts() (writerWaiting, batchers int) {
	buf := make([]byte, 1<<18)
	for {
		n := runtime.Stack(buf, true)
		if n < len(buf) {
			buf = buf[:n]
			break
		}
		buf = make([]byte, 2*len(buf))
	}
	for _, g := range strings.Split(string(buf), "\n\n") {
		if isWriterLoop(g) && strings.Contains(g, "sync.(*Cond).Wait") {
			writerWaiting++
		}
		if isBatcherLoop(g) {
			batchers++
		}
	}
	return
}

func writerParked() bool {
	ww, _ := stackCounts()
	return ww == leakedWaiters+1
}

// ---------- forced schedules ----------

const settleTimeout = 3 * time.Second

type producer struct {
	cmd chan func()
}

type runner struct {
	w        *event.KafkaWriter
	gate     chan struct{}
	arrived  chan []omsg
	left     chan []omsg
	prods    map[int]*producer
	inGate   bool
	expected int // accepted so far: returned normally and one of the nine event types
	recorded int
	closeCalled, closeReturned, doneSeen bool
	closeRet chan struct{}
	open     int32 // 1 = gate abandoned (never blocks again)
}

func newRunner() *runner {
	r := &runner{gate: make(chan struct{}), arrived: make(chan []omsg, 64), left: make(chan []omsg, 64),
		prods: map[int]*producer{}, closeRet: make(chan struct{})}
	r.w = event.VerifC19NewWriter("verif-c19", func(ms []kafka.Message) {
		// entry: decode, and keep private copies of the raw bytes
		b := make([]omsg, len(ms))
		raw := make([][2]string, len(ms))
		for i, m := range ms {
			b[i] = decode(m)
			raw[i] = [2]string{string(m.Key), string(m.Value)}
		}
		r.arrived <- b
		if atomic.LoadInt32(&r.open) == 0 {
			<-r.gate // broker latency
		}
		// return: the same slice once more — this is what a broker write that took that long sent
		e := make([]omsg, len(ms))
		for i, m := range ms {
			e[i] = decode(m)
			if i < len(raw) && (string(m.Key) != raw[i][0] || string(m.Value) != raw[i][1]) &&
				e[i].P == b[i].P && e[i].T == b[i].T && e[i].K == b[i].K {
				e[i].K, e[i].Note = 98, "bytes changed while in flight"
			}
		}
		r.left <- e
	})
	return r
}

func (r *runner) prod(p int) *producer {
	if pr, ok := r.prods[p]; ok {
		return pr
	}
	pr := &producer{cmd: make(chan func())}
	go func() {
		for f := range pr.cmd {
			f()
		}
	}()
	r.prods[p] = pr
	return pr
}

// publishAll lets producer goroutine p publish evs in order; reports per event 0 / 2 (panic).
func (r *runner) publishAll(p int, evs []evIn, out chan<- [2]int) {
	r.prod(p).cmd <- func() {
		for _, e := range evs {
			res := 0
			func() {
				defer func() {
					if x := recover(); x != nil {
						res = 2
					}
				}()
				publish(r.w, e)
			}()
			ok := 0
			if res == 0 && e.K <= 8 {
				ok = 1
			}
			out <- [2]int{res, ok}
		}
	}
}

func (r *runner) quiescent() bool {
	if r.closeReturned {
		return true
	}
	c, b, d := event.VerifC19Probe(r.w)
	if c != 0 || r.recorded+b != r.expected {
		return false
	}
	if r.inGate {
		if r.closeCalled && !r.doneSeen {
			if d != 1 {
				return false
			}
			r.doneSeen = true
		}
		return true
	}
	if b != 0 || r.closeCalled {
		return false
	}
	return writerParked()
}

func (r *runner) settle(o *opObs) {
	deadline := time.Now().Add(settleTimeout)
	spins := 0
	for {
		select {
		case b := <-r.arrived:
			o.Batches = append(o.Batches, b)
			r.recorded += len(b)
			r.inGate = true
			continue
		default:
		}
		if r.closeCalled && !r.closeReturned {
			select {
			case <-r.closeRet:
				// everything the writer handed over happened before its exit
				for more := true; more; {
					select {
					case b := <-r.arrived:
						o.Batches = append(o.Batches, b)
						r.recorded += len(b)
					default:
						more = false
					}
				}
				r.closeReturned, r.inGate = true, false
				o.Closed = true
			default:
			}
		}
		if r.quiescent() {
			select {
			case b := <-r.arrived:
				o.Batches = append(o.Batches, b)
				r.recorded += len(b)
				r.inGate = true
				continue
			default:
			}
			return
		}
		if time.Now().After(deadline) {
			o.Res = 9
			return
		}
		spins++
		if spins < 50 {
			runtime.Gosched()
		} else {
			time.Sleep(50 * time.Microsecond)
		}
	}
}

func (r *runner) do(op opIn) opObs {
	var o opObs
	switch op.Op {
	case "pub":
		out := make(chan [2]int, 1)
		r.publishAll(op.Ev.P, []evIn{*op.Ev}, out)
		select {
		case x := <-out:
			o.Res = x[0]
			r.expected += x[1]
		case <-time.After(settleTimeout):
			o.Res = 3
			return o
		}
	case "burst":
		byProd := map[int][]evIn{}
		var order []int
		for _, e := range op.Burst {
			if _, ok := byProd[e.P]; !ok {
				order = append(order, e.P)
			}
			byProd[e.P] = append(byProd[e.P], e)
		}
		out := make(chan [2]int, len(op.Burst))
		for _, p := range order {
			r.publishAll(p, byProd[p], out)
		}
		timeout := time.After(settleTimeout)
		for i := 0; i < len(op.Burst); i++ {
			select {
			case x := <-out:
				if x[0] == 2 {
					o.Res = 2
				}
				r.expected += x[1]
			case <-timeout:
				o.Res = 3
				return o
			}
		}
	case "full":
		if st := r.doFull(op.Full, &o); !st {
			return o
		}
	case "release":
		if !r.inGate {
			o.Res = 1
			return o
		}
		r.inGate = false
		r.gate <- struct{}{}
		select {
		case e := <-r.left:
			o.Left = append(o.Left, e)
		case <-time.After(settleTimeout):
			o.Res = 9
			return o
		}
	case "close":
		if r.closeCalled {
			o.Res = 1
			return o
		}
		r.closeCalled = true
		go func() {
			r.w.Close()
			close(r.closeRet)
		}()
	}
	r.settle(&o)
	return o
}

// ---------- channel full ----------

func (f *fullIn) resolveBulk(capv int) *fullProd {
	if f.Bulk == nil {
		return nil
	}
	b := *f.Bulk
	if b.Over != nil {
		b.N = capv + *b.Over
	}
	if b.N < 0 {
		b.N = 0
	}
	b.Over = nil
	return &b
}

// resolve: the producers in start order (the bulk producer first) and the number of events
func (f *fullIn) resolve(capv int) (prods []fullProd, total int) {
	if b := f.resolveBulk(capv); b != nil {
		prods = append(prods, *b)
		total += b.N
	}
	for _, fp := range f.Prods {
		if fp.Over != nil {
			fp.N = capv + *fp.Over
		}
		if fp.N < 0 {
			fp.N = 0
		}
		fp.Over = nil
		prods = append(prods, fp)
		total += fp.N
	}
	return
}

func (f *fullIn) events(capv int) []evIn {
	prods, total := f.resolve(capv)
	es := make([]evIn, 0, total)
	for _, fp := range prods {
		for i := 0; i < fp.N; i++ {
			es = append(es, evIn{P: fp.P, K: f.K, T: fp.T0 + i, Env: f.Env, Task: f.Task})
		}
	}
	return es
}

// fullWorker publishes the events of one producer in order and counts the calls that returned.
// (A method of its own so that the goroutine can be recognised in a goroutine dump.)
func (r *runner) fullWorker(f *fullIn, fp fullProd, returned *int64, panicked *int32) {
	for i := 0; i < fp.N; i++ {
		e := evIn{P: fp.P, K: f.K, T: fp.T0 + i, Env: f.Env, Task: f.Task}
		ok := true
		func() {
			defer func() {
				if x := recover(); x != nil {
					ok = false
					atomic.StoreInt32(panicked, 1)
				}
			}()
			publish(r.w, e)
		}()
		if ok && e.K <= 8 {
			atomic.AddInt64(returned, 1)
		}
	}
}

// stallState inspects a goroutine dump: producers of a full operation that are still inside
// fullWorker, how many of those are parked in a channel send, and whether the batching loop sits
// in FifoBuffer.Push (it has taken a message and waits for the mutex the harness holds).
func stallState() (workers, parkedInSend int, batcherInPush bool) {
	buf := make([]byte, 1<<18)
	for {
		n := runtime.Stack(buf, true)
		if n < len(buf) {
			buf = buf[:n]
			break
		}
		buf = make([]byte, 2*len(buf))
	}
	for _, g := range strings.Split(string(buf), "\n\n") {
		if strings.Contains(g, ").fullWorker") {
			workers++
			if nl := strings.IndexByte(g, '\n'); nl > 0 && strings.Contains(g[:nl], "[chan send") {
				parkedInSend++
			}
		}
		if isBatcherLoop(g) && strings.Contains(g, ").Push") {
			batcherInPush = true
		}
	}
	return
}

const stallTimeout = 20 * time.Second

// doFull: false = the operation did not complete (o.Res says why), do not settle.
func (r *runner) doFull(f *fullIn, o *opObs) bool {
	capv := event.VerifC19ChanCap(r.w)
	prods, total := f.resolve(capv)
	release := event.VerifC19HoldBuffer(r.w) // the batching loop stops at its next Push
	counters := make([]int64, len(prods))
	var panicked int32
	done := make(chan struct{}, len(prods))
	for i, fp := range prods {
		i, fp := i, fp
		r.prod(fp.P).cmd <- func() {
			r.fullWorker(f, fp, &counters[i], &panicked)
			done <- struct{}{}
		}
		if i == 0 && f.Bulk != nil {
			// the bulk producer alone first (it fits: it cannot wait unless something is wrong,
			// and then the loop below sees it)
			for t0 := time.Now(); atomic.LoadInt64(&counters[0]) < int64(fp.N) && time.Since(t0) < 5*time.Second; {
				time.Sleep(100 * time.Microsecond)
			}
		}
	}
	sum := func() int {
		n := int64(0)
		for i := range counters {
			n += atomic.LoadInt64(&counters[i])
		}
		return int(n)
	}
	finished := 0
	// nothing moves any more: every producer has finished, or the channel is full, the batching
	// loop holds a message in Push and every unfinished producer is parked in its channel send
	deadline := time.Now().Add(stallTimeout)
	still := false
	for !still {
		for more := true; more; {
			select {
			case <-done:
				finished++
			default:
				more = false
			}
		}
		if finished == len(prods) {
			still = true
			break
		}
		if event.VerifC19ChanLen(r.w) == capv {
			workers, parked, inPush := stallState()
			if inPush && workers == parked && workers > 0 && event.VerifC19ChanLen(r.w) == capv {
				still = true
				break
			}
		}
		if time.Now().After(deadline) {
			break
		}
		time.Sleep(200 * time.Microsecond)
	}
	o.Stall = [2]int{sum(), capv}
	release()
	timeout := time.After(stallTimeout)
	for finished < len(prods) {
		select {
		case <-done:
			finished++
		case <-timeout:
			r.expected += sum()
			o.Res = 3
			return false
		}
	}
	r.expected += sum()
	_ = total
	if atomic.LoadInt32(&panicked) != 0 {
		o.Res = 2
	}
	if !still {
		o.Res = 9
		return false
	}
	return true
}

// abandon lets everything still running go through without the harness.
func (r *runner) abandon() {
	atomic.StoreInt32(&r.open, 1)
	go func() {
		for range r.arrived {
		}
	}()
	go func() {
		for range r.left {
		}
	}()
	close(r.gate)
	if !r.closeCalled {
		r.closeCalled = true
		go r.w.Close()
	}
	time.Sleep(20 * time.Millisecond)
	if ww, _ := stackCounts(); ww > leakedWaiters {
		leakedWaiters = ww
	}
	for _, p := range r.prods {
		close(p.cmd)
	}
}

func evTerm(e evIn) string {
	return fmt.Sprintf("(mkEvent %d %d %s %s)", e.K, e.T, gen.Str(e.Env), gen.Str(e.Task))
}

func omsgTerm(m omsg) string {
	k := gen.None()
	if m.Key != nil {
		k = gen.Some(gen.Str(*m.Key))
	}
	return fmt.Sprintf("(%d, %d, %d, %s)", m.P, m.T, m.K, k)
}

// batchTerm: a batch as a Coq list of omsg; a long batch of one event type and one key in
// run-length notation (runs of consecutive tags of one producer).
func batchTerm(b []omsg) string {
	uniform := len(b) >= 8
	for _, m := range b {
		if !uniform {
			break
		}
		if m.K != b[0].K || (m.Key == nil) != (b[0].Key == nil) || (m.Key != nil && *m.Key != *b[0].Key) {
			uniform = false
		}
	}
	if !uniform {
		ms := make([]string, len(b))
		for k, m := range b {
			ms[k] = omsgTerm(m)
		}
		return gen.List(ms)
	}
	var runs []string
	for i := 0; i < len(b); {
		j := i + 1
		for j < len(b) && b[j].P == b[i].P && b[j].T == b[j-1].T+1 {
			j++
		}
		runs = append(runs, fmt.Sprintf("(%d, %d, %d)", b[i].P, b[i].T, j-i))
		i = j
	}
	key := gen.None()
	if b[0].Key != nil {
		key = gen.Some(gen.Str(*b[0].Key))
	}
	return fmt.Sprintf("(runs_batch %d %s %s)", b[0].K, key, gen.List(runs))
}

// runSched executes a forced schedule; it completes the schedule with the operations needed to
// shut the writer down (close, releases) so that no goroutine outlives the case.
func runSched(in caseIn) (gen.Case, bool) {
	r := newRunner()
	ops := append([]opIn(nil), in.Ops...)
	var obs []opObs
	stuck := false
	step := func(op opIn) {
		o := r.do(op)
		obs = append(obs, o)
		if o.Res == 9 || o.Res == 3 {
			stuck = true
		}
	}
	// wait for the freshly started writer to park before the first operation
	var o0 opObs
	r.settle(&o0)
	if o0.Res == 9 {
		stuck = true
	}
	if stuck {
		// the freshly built writer never came to rest: report it on the first operation
		if len(ops) == 0 {
			ops = []opIn{{Op: "close"}}
		}
		obs = append(obs, opObs{Res: 9})
	}
	for _, op := range ops {
		if stuck {
			break
		}
		step(op)
	}
	ops = ops[:len(obs)]
	if !stuck && !r.closeCalled {
		ops = append(ops, opIn{Op: "close"})
		step(ops[len(ops)-1])
	}
	for guard := 0; !stuck && r.inGate && guard < 10000; guard++ {
		ops = append(ops, opIn{Op: "release"})
		step(ops[len(ops)-1])
	}
	if !stuck && !r.closeReturned {
		// nothing left to release and Close still waits
		obs[len(obs)-1].Res = 9
		stuck = true
	}
	if stuck {
		r.abandon()
	} else {
		for _, p := range r.prods {
			close(p.cmd)
		}
	}

	// acceptance order inside a burst = order in which its messages reached the broker
	pos := map[[2]int]int{}
	n := 0
	for _, o := range obs {
		for _, b := range o.Batches {
			for _, m := range b {
				if _, ok := pos[[2]int{m.P, m.T}]; !ok {
					pos[[2]int{m.P, m.T}] = n
				}
				n++
			}
		}
	}
	// events of a full operation in the order they were accepted (= reached the broker);
	// those that never arrived last, in program order
	capv := event.VerifC19ChanCap(r.w)
	acceptOrder := func(es []evIn) []evIn {
		es = append([]evIn(nil), es...)
		sort.SliceStable(es, func(a, b int) bool {
			pa, oka := pos[[2]int{es[a].P, es[a].T}]
			pb_, okb := pos[[2]int{es[b].P, es[b].T}]
			if oka != okb {
				return oka
			}
			return oka && pa < pb_
		})
		return es
	}
	obsTerm := func(o opObs) string {
		bs := make([]string, len(o.Batches))
		for j, b := range o.Batches {
			bs[j] = batchTerm(b)
		}
		ls := make([]string, len(o.Left))
		for j, b := range o.Left {
			ls[j] = batchTerm(b)
		}
		bstr, lstr := gen.List(bs), gen.List(ls)
		if len(bstr) > 2000 && bstr == lstr {
			// same observation at entry and at return of the write function: write it once
			return fmt.Sprintf("(let bs := %s in (%d, bs, %s, bs, (%d, %d)))", bstr, o.Res, gen.Bool(o.Closed), o.Stall[0], o.Stall[1])
		}
		return fmt.Sprintf("(%d, %s, %s, %s, (%d, %d))", o.Res, bstr, gen.Bool(o.Closed), lstr, o.Stall[0], o.Stall[1])
	}
	if c, ok := mergedCase(in, ops, obs, capv, acceptOrder, obsTerm); ok {
		return c, stuck
	}
	var opTerms, obsTerms []string
	for i, op := range ops {
		switch op.Op {
		case "full":
			es := acceptOrder(op.Full.events(capv))
			items := make([]string, len(es))
			for j, e := range es {
				items[j] = gen.Pair(fmt.Sprint(e.P), evTerm(e))
			}
			opTerms = append(opTerms, "OFull "+gen.List(items))
		case "pub":
			opTerms = append(opTerms, fmt.Sprintf("OPub %d %s", op.Ev.P, evTerm(*op.Ev)))
		case "burst":
			es := append([]evIn(nil), op.Burst...)
			sort.SliceStable(es, func(a, b int) bool {
				pa, oka := pos[[2]int{es[a].P, es[a].T}]
				pb_, okb := pos[[2]int{es[b].P, es[b].T}]
				if oka != okb {
					return oka
				}
				return oka && pa < pb_
			})
			items := make([]string, len(es))
			for j, e := range es {
				items[j] = gen.Pair(fmt.Sprint(e.P), evTerm(e))
			}
			opTerms = append(opTerms, "OBurst "+gen.List(items))
		case "release":
			opTerms = append(opTerms, "ORelease")
		case "close":
			opTerms = append(opTerms, "OClose")
		}
		obsTerms = append(obsTerms, obsTerm(obs[i]))
	}
	return gen.Case{
		Term:  fmt.Sprintf("CSched %s %s", gen.List(opTerms), gen.List(obsTerms)),
		Kind:  "sched",
		Input: in,
		Obs:   map[string]interface{}{"ops_executed": ops, "per_op": obs},
	}, stuck
}

// mergedCase: a case whose last requested operation is a long "full" is written as
// CFull pre l obs — the observations of all operations (the requested ones and the Close and the
// releases the harness appended) merged into one; the long burst in run-length notation.
func mergedCase(in caseIn, ops []opIn, obs []opObs, capv int, acceptOrder func([]evIn) []evIn,
	obsTerm func(opObs) string) (gen.Case, bool) {
	if !in.Merge || len(in.Ops) == 0 || in.Ops[len(in.Ops)-1].Op != "full" || len(obs) < len(in.Ops) {
		return gen.Case{}, false
	}
	idx := len(in.Ops) - 1
	var pre []string
	for _, op := range ops[:idx] {
		switch op.Op {
		case "pub":
			pre = append(pre, fmt.Sprintf("OPub %d %s", op.Ev.P, evTerm(*op.Ev)))
		case "release":
			pre = append(pre, "ORelease")
		default:
			return gen.Case{}, false
		}
	}
	f := in.Ops[idx].Full
	es := acceptOrder(f.events(capv))
	var runs []string
	for i := 0; i < len(es); {
		j := i + 1
		for j < len(es) && es[j].P == es[i].P && es[j].T == es[j-1].T+1 {
			j++
		}
		runs = append(runs, fmt.Sprintf("(%d, %d, %d)", es[i].P, es[i].T, j-i))
		i = j
	}
	var m opObs
	for _, o := range obs {
		if o.Res > m.Res {
			m.Res = o.Res
		}
		m.Batches = append(m.Batches, o.Batches...)
		m.Left = append(m.Left, o.Left...)
		m.Closed = m.Closed || o.Closed
		if o.Stall[1] != 0 {
			m.Stall = o.Stall
		}
	}
	// summary for the replay / evidence files (the full observation is in the Coq term)
	delivered, minB, maxB := 0, 0, 0
	lastTag := map[int]int{}
	var firstInversion interface{}
	for _, b := range m.Batches {
		if minB == 0 || len(b) < minB {
			minB = len(b)
		}
		if len(b) > maxB {
			maxB = len(b)
		}
		for _, x := range b {
			if t, ok := lastTag[x.P]; ok && x.T <= t && firstInversion == nil {
				firstInversion = map[string]int{"position": delivered, "producer": x.P, "tag": x.T, "after_tag": t}
			}
			lastTag[x.P] = x.T
			delivered++
		}
	}
	sum := map[string]interface{}{
		"published": len(es), "capacity": m.Stall[1], "returned_while_batching_loop_stalled": m.Stall[0],
		"reached_broker": delivered, "batches": len(m.Batches), "batch_min": minB, "batch_max": maxB,
		"batches_returned": len(m.Left), "close_returned": m.Closed, "worst_result_code": m.Res,
		"runs_in_acceptance_order": len(runs), "first_per_producer_inversion": firstInversion,
		"operations_executed": len(ops),
	}
	return gen.Case{
		Term: fmt.Sprintf("CFull %s (expand_runs %d %s %s %s) %s", gen.List(pre), f.K, gen.Str(f.Env),
			gen.Str(f.Task), gen.List(runs), obsTerm(m)),
		Kind:  "full",
		Input: in,
		Obs:   sum,
	}, true
}

// ---------- unforced races ----------

func spin(n int) {
	x := 0
	for i := 0; i < n; i++ {
		x += i
	}
	_ = x
}

// hung: Close has not returned, the batching loop is gone, its done token is still unconsumed,
// nothing is queued, and the writer sits in cond.Wait — nobody can wake it any more.
func hung(w *event.KafkaWriter) bool {
	c, b, d := event.VerifC19Probe(w)
	if c != 0 || b != 0 || d != 1 {
		return false
	}
	ww, ba := stackCounts()
	return ba == 0 && ww == leakedWaiters+1
}

// waitClose: true = returned, false = hung (diagnosed) or never returned within 20 s.
func waitClose(w *event.KafkaWriter, done chan struct{}) bool {
	select {
	case <-done:
		return true
	case <-time.After(100 * time.Millisecond):
	}
	for i := 0; i < 400; i++ {
		if hung(w) {
			leakedWaiters++
			return false
		}
		select {
		case <-done:
			return true
		case <-time.After(50 * time.Millisecond):
		}
	}
	leakedWaiters, _ = stackCounts()
	return false
}

func runRace(in raceIn) gen.Case {
	r := gen.NewRand(in.Seed)
	hangs, lost, trials := 0, 0, 0
	aborted := false
	for ; trials < in.Trials && hangs == 0 && !aborted; trials++ {
		done := make(chan struct{})
		switch in.Mode {
		case 1: // Close right after construction
			w := event.VerifC19NewWriter("verif-c19", func([]kafka.Message) {})
			spin(r.Intn(300))
			go func() { w.Close(); close(done) }()
			if !waitClose(w, done) {
				hangs++
			}
		case 2: // Close against the return of the write function, buffer empty
			gate := make(chan struct{})
			arrived := make(chan int, 4)
			w := event.VerifC19NewWriter("verif-c19", func(ms []kafka.Message) {
				arrived <- len(ms)
				<-gate
			})
			pubDone := make(chan struct{})
			go func() { w.WriteEvent(&pb.Ev_MetaEvent_CoreStart{FrameworkId: "0:0"}); close(pubDone) }()
			got, ok := 0, true
			select {
			case got = <-arrived:
			case <-time.After(settleTimeout):
				ok = false
			}
			if ok {
				select {
				case <-pubDone:
				case <-time.After(settleTimeout):
					ok = false
				}
			}
			if !ok {
				// the message never reached the write function, or WriteEvent waits for the broker:
				// the forced schedules report that; this search cannot run
				close(gate)
				aborted = true
				break
			}
			d1, d2 := r.Intn(3000), r.Intn(3000)
			go func() { spin(d1); w.Close(); close(done) }()
			spin(d2)
			gate <- struct{}{}
			if !waitClose(w, done) {
				hangs++
			} else if got != 1 {
				lost++
			}
		case 3: // concurrent producers, free-running writer, Close as soon as they returned
			var rec int64
			w := event.VerifC19NewWriter("verif-c19", func(ms []kafka.Message) {
				atomic.AddInt64(&rec, int64(len(ms)))
			})
			np, per := r.Range(1, 8), r.Range(1, 60)
			var wg sync.WaitGroup
			for p := 0; p < np; p++ {
				wg.Add(1)
				go func(p int) {
					defer wg.Done()
					for t := 0; t < per; t++ {
						publish(w, evIn{P: p, K: 5, T: t, Env: "e1"})
					}
				}(p)
			}
			wg.Wait()
			go func() { w.Close(); close(done) }()
			if !waitClose(w, done) {
				hangs++
			} else if atomic.LoadInt64(&rec) != int64(np*per) {
				lost++
			}
		}
	}
	return gen.Case{
		Term:  fmt.Sprintf("CRace %d %d %d %d", in.Mode, trials, hangs, lost),
		Kind:  fmt.Sprintf("race%d", in.Mode),
		Input: caseIn{Race: &in},
		Obs:   map[string]int{"trials": trials, "hangs": hangs, "lost": lost},
	}
}

// ---------- generators ----------

var envPool = []string{"e1", "e2", "e3", "2rE9AV3m1HL"}
var taskPool = []string{"t1", "t2", "t3"}

type genState struct {
	r       *gen.Rand
	np      int
	tags    map[int]int
	inGate  bool
	buf     int
	closed  bool
	keyMix  bool
	stats   map[string]int
	maxOps  int
}

func (g *genState) event(p int) evIn {
	r := g.r
	k := 5
	switch x := r.Intn(100); {
	case x < 55:
		k = r.Range(4, 8)
	case x < 72:
		k = 3
	case x < 90:
		k = r.Range(0, 2)
	default:
		k = r.Range(9, 11)
	}
	e := evIn{P: p, K: k, T: g.tags[p]}
	g.tags[p]++
	if k >= 3 && k <= 8 {
		if !r.Chance(1, 12) {
			e.Env = envPool[r.Intn(len(envPool))]
		}
	}
	if k == 3 && !r.Chance(1, 8) {
		e.Task = taskPool[r.Intn(len(taskPool))]
	}
	return e
}

func (g *genState) account(e evIn) {
	if e.K > 8 || g.closed {
		return
	}
	if !g.inGate {
		g.inGate = true
	} else {
		g.buf++
	}
}

func (g *genState) release() {
	if g.buf > 0 {
		k := g.buf
		if k > 100 {
			k = 100
		}
		g.buf -= k
	} else {
		g.inGate = false
	}
}

var burstSmall = []int{2, 2, 3, 5, 8, 13, 20}
var burstLarge = []int{99, 100, 101, 150, 199, 200, 201, 250}

func genSched(r *gen.Rand, large bool) caseIn {
	g := &genState{r: r, np: r.Range(1, 8), tags: map[int]int{}}
	nops := r.Range(2, 14)
	if large {
		nops = r.Range(3, 9)
	}
	var ops []opIn
	closeAt := r.Intn(nops + 1) // Close somewhere inside (or right at the start / at the end)
	for i := 0; i < nops; i++ {
		if i == closeAt && !g.closed {
			ops = append(ops, opIn{Op: "close"})
			g.closed = true
		}
		x := r.Intn(100)
		switch {
		case g.closed:
			// after Close: releases, now and then a late publication
			if g.inGate && x < 80 {
				ops = append(ops, opIn{Op: "release"})
				g.release()
			} else if x < 90 {
				e := g.event(r.Intn(g.np))
				ops = append(ops, opIn{Op: "pub", Ev: &e})
			}
		case g.inGate && x < 30:
			ops = append(ops, opIn{Op: "release"})
			g.release()
		case g.inGate && x < 60:
			sizes := burstSmall
			if large {
				sizes = burstLarge
			}
			n := sizes[r.Intn(len(sizes))]
			var es []evIn
			for j := 0; j < n; j++ {
				e := g.event(r.Intn(g.np))
				es = append(es, e)
				g.account(e)
			}
			ops = append(ops, opIn{Op: "burst", Burst: es})
		case g.inGate && x < 68:
			// a short burst behind a stalled batching loop (it fits into the channel)
			f := &fullIn{K: r.Range(0, 8)}
			if f.K >= 3 && !r.Chance(1, 12) {
				f.Env = envPool[r.Intn(len(envPool))]
			}
			if f.K == 3 && !r.Chance(1, 8) {
				f.Task = taskPool[r.Intn(len(taskPool))]
			}
			for _, p := range r.Perm(g.np)[:r.Range(1, min(3, g.np))] {
				n := r.Range(1, 8)
				f.Prods = append(f.Prods, fullProd{P: p, T0: g.tags[p], N: n})
				g.tags[p] += n
				g.buf += n
			}
			ops = append(ops, opIn{Op: "full", Full: f})
		default:
			e := g.event(r.Intn(g.np))
			ops = append(ops, opIn{Op: "pub", Ev: &e})
			g.account(e)
		}
	}
	return caseIn{Ops: ops}
}

// every event type with every id pattern, little scheduling
func genKeys(r *gen.Rand) caseIn {
	var ops []opIn
	tags := map[int]int{}
	np := r.Range(1, 3)
	n := r.Range(6, 16)
	for i := 0; i < n; i++ {
		p := r.Intn(np)
		e := evIn{P: p, K: r.Intn(10), T: tags[p]}
		tags[p]++
		if r.Chance(4, 5) {
			e.Env = envPool[r.Intn(2)]
		}
		if r.Chance(3, 4) {
			e.Task = taskPool[r.Intn(2)]
		}
		ops = append(ops, opIn{Op: "pub", Ev: &e})
		if r.Chance(1, 3) {
			ops = append(ops, opIn{Op: "release"})
		}
	}
	return caseIn{Ops: ops}
}

// a full channel: one publication (the writer then sits in the write function), then, behind a
// stalled batching loop, 1 / 2 / 3 / 8 producers publish capacity + d events in all
// (d = 0: the channel just fills, 1: all return and the loop holds one, 2..: producers wait)
var bigOver = []int{0, 1, 2, 3, 5, 17, 60}

func genBig(r *gen.Rand) caseIn {
	np := []int{1, 2, 3, 8}[r.Intn(4)]
	d := bigOver[r.Intn(len(bigOver))]
	f := &fullIn{K: []int{0, 2}[r.Intn(2)]}
	// producer 9 alone fills the channel up to B free slots; then np producers publish B + d
	// events concurrently (the start order of their goroutines is random)
	B := r.Range(20, 200)
	bulkOver := -B
	f.Bulk = &fullProd{P: 9, T0: 0, Over: &bulkOver}
	left := B + d
	for p := 0; p < np; p++ {
		n := left
		if p < np-1 {
			n = r.Range(1, max(1, 2*left/(np-p)))
			if n > left-(np-1-p) {
				n = max(0, left-(np-1-p))
			}
		}
		t0 := 0
		if p == 0 {
			t0 = 1
		}
		f.Prods = append(f.Prods, fullProd{P: p, T0: t0, N: n})
		left -= n
	}
	perm := r.Perm(len(f.Prods))
	prods := make([]fullProd, len(f.Prods))
	for i, j := range perm {
		prods[i] = f.Prods[j]
	}
	f.Prods = prods
	first := evIn{P: 0, K: 5, T: 0, Env: "e1"}
	return caseIn{Merge: true, Ops: []opIn{{Op: "pub", Ev: &first}, {Op: "full", Full: f}}}
}

func sizeOf(c caseIn) int {
	n := 0
	if c.Reg != nil {
		for _, g := range c.Reg.Groups {
			for _, pr := range g.Prods {
				n += 1 + pr.N
			}
		}
	}
	for _, o := range c.Ops {
		n += 1 + len(o.Burst)
		if o.Full != nil {
			_, t := o.Full.resolve(10000)
			n += t
		}
	}
	return n
}

// ---------- crash isolation ----------
//
// The cases run in a child process (this binary again, H19_CHILD_IN / H19_CHILD_OUT set), which
// appends one JSON line per finished case.  A panic in a goroutine the writer itself started —
// e.g. a hand-over goroutine sending on the channel that Close has closed — cannot be recovered
// by the harness and kills the child; the parent then records the case that was running as a
// CCrash case (monitor code 12) and starts a new child with the next one.

type wireCase struct {
	Term    string          `json:"term"`
	Kind    string          `json:"kind"`
	Obs     json.RawMessage `json:"obs"`
	Skipped bool            `json:"skipped,omitempty"`
	Leaked  int             `json:"leaked"`
}

type result struct {
	in caseIn
	c  gen.Case
}

func runChild(inFile, outFile string) {
	learnLoopNames()
	raw, err := os.ReadFile(inFile)
	if err != nil {
		panic(err)
	}
	var inputs []caseIn
	if err := json.Unmarshal(raw, &inputs); err != nil {
		panic(err)
	}
	out, err := os.OpenFile(outFile, os.O_CREATE|os.O_WRONLY|os.O_APPEND, 0o644)
	if err != nil {
		panic(err)
	}
	defer out.Close()
	emit := func(w wireCase) {
		b, _ := json.Marshal(w)
		out.Write(append(b, '\n'))
	}
	stuckCases := 0
	for _, in := range inputs {
		var c gen.Case
		if in.Race != nil {
			c = runRace(*in.Race)
		} else if in.Reg != nil {
			c = runRegistry(*in.Reg)
		} else {
			if stuckCases >= 5 {
				// enough evidence; every further case would cost the settle timeout again
				emit(wireCase{Skipped: true, Leaked: leakedWaiters})
				continue
			}
			var stuck bool
			c, stuck = runSched(in)
			if stuck {
				stuckCases++
			}
		}
		obs, _ := json.Marshal(c.Obs)
		emit(wireCase{Term: c.Term, Kind: c.Kind, Obs: obs, Leaked: leakedWaiters})
	}
}

func runIsolated(o gen.Opts, inputs []caseIn) (results []result, leaked int) {
	inFile := filepath.Join(o.Out, "h19_child_in.json")
	outFile := filepath.Join(o.Out, "h19_child_out.jsonl")
	defer os.Remove(inFile)
	defer os.Remove(outFile)
	crashes := 0
	for next := 0; next < len(inputs); {
		b, _ := json.Marshal(inputs[next:])
		if err := os.WriteFile(inFile, b, 0o644); err != nil {
			panic(err)
		}
		os.Remove(outFile)
		cmd := exec.Command(os.Args[0], os.Args[1:]...)
		cmd.Env = append(os.Environ(), "H19_CHILD_IN="+inFile, "H19_CHILD_OUT="+outFile)
		var stderr bytes.Buffer
		cmd.Stderr = &stderr
		cmd.Stdout = io.Discard
		err := cmd.Run()
		done := 0
		if raw, rerr := os.ReadFile(outFile); rerr == nil {
			for _, line := range bytes.Split(raw, []byte{'\n'}) {
				if len(bytes.TrimSpace(line)) == 0 {
					continue
				}
				var w wireCase
				if json.Unmarshal(line, &w) != nil {
					break // a half-written last line
				}
				if next+done >= len(inputs) {
					break
				}
				leaked = w.Leaked
				if !w.Skipped {
					results = append(results, result{inputs[next+done],
						gen.Case{Term: w.Term, Kind: w.Kind, Input: inputs[next+done], Obs: w.Obs}})
				}
				done++
			}
		}
		next += done
		if next >= len(inputs) {
			break
		}
		if err == nil {
			// the child ended normally without finishing its list: should not happen
			fmt.Fprintln(os.Stderr, "h19: child stopped early without an error")
			os.Exit(2)
		}
		// the child died while running inputs[next]
		msg := stderr.String()
		first, kind := "", 0
		for _, l := range strings.Split(msg, "\n") {
			if strings.HasPrefix(l, "panic:") || strings.HasPrefix(l, "fatal error:") {
				first = l
				break
			}
		}
		if strings.Contains(first, "send on closed channel") {
			kind = 1
		}
		if len(msg) > 3000 {
			msg = msg[:3000]
		}
		results = append(results, result{inputs[next], gen.Case{
			Term: fmt.Sprintf("CCrash %d", kind), Kind: "crash", Input: inputs[next],
			Obs: map[string]string{"died_with": first, "exit": err.Error(), "stderr": msg}}})
		next++
		crashes++
		if crashes >= 3 {
			break // enough evidence
		}
	}
	return
}

func main() {
	o := gen.ParseFlags()
	logrus.SetOutput(io.Discard)
	logrus.SetLevel(logrus.PanicLevel)

	if in := os.Getenv("H19_CHILD_IN"); in != "" {
		runChild(in, os.Getenv("H19_CHILD_OUT"))
		return
	}

	var inputs []caseIn
	if o.Replay != "" {
		ins, _, err := gen.LoadReplay(o.Replay)
		if err != nil {
			panic(err)
		}
		for _, raw := range ins {
			var in caseIn
			if err := json.Unmarshal(raw, &in); err != nil {
				panic(err)
			}
			inputs = append(inputs, in)
		}
	} else {
		// corpus first
		files, _ := filepath.Glob(filepath.Join("corpus", "C19", "*.json"))
		sort.Strings(files)
		for _, f := range files {
			ins, _, err := gen.LoadReplay(f)
			if err != nil {
				fmt.Fprintln(os.Stderr, "corpus:", f, err)
				os.Exit(2)
			}
			for _, raw := range ins {
				var in caseIn
				if err := json.Unmarshal(raw, &in); err != nil {
					panic(err)
				}
				inputs = append(inputs, in)
			}
		}
		r := gen.NewRand(o.Seed)
		rSmall, rLarge, rKeys, rRace, rBig := r.Fork(), r.Fork(), r.Fork(), r.Fork(), r.Fork()
		nLarge := o.N * 15 / 100
		nKeys := o.N * 15 / 100
		nSmall := o.N - nLarge - nKeys
		var gens []caseIn
		for i := 0; i < nSmall; i++ {
			gens = append(gens, genSched(rSmall, false))
		}
		for i := 0; i < nLarge; i++ {
			gens = append(gens, genSched(rLarge, true))
		}
		for i := 0; i < nKeys; i++ {
			gens = append(gens, genKeys(rKeys))
		}
		// a few full-channel cases (10000+ events each): the largest cases, one per shard
		nBig := 3
		if o.Tier == "thorough" {
			nBig = 16
		}
		if o.N < 50 {
			nBig = 1
		}
		for i := 0; i < nBig; i++ {
			gens = append(gens, genBig(rBig))
		}
		// the per-topic writer registry: concurrent first use of a topic
		nReg := o.N / 10
		rReg := r.Fork()
		for i := 0; i < nReg; i++ {
			gens = append(gens, genReg(rReg))
		}
		// small cases first: the first failing case the driver reports is then a small one
		sort.SliceStable(gens, func(a, b int) bool { return sizeOf(gens[a]) < sizeOf(gens[b]) })
		// the case files are contiguous slices of the case list: deal the sorted cases out so that
		// every shard gets its share of the large ones (each shard still ascending in size)
		k := o.Shards
		if k < 1 {
			k = 1
		}
		for sh := 0; sh < k; sh++ {
			for i := sh; i < len(gens); i += k {
				inputs = append(inputs, gens[i])
			}
		}
		mult := 1
		if o.Tier == "thorough" {
			mult = 10
		}
		inputs = append(inputs,
			caseIn{Race: &raceIn{Mode: 3, Trials: 150 * mult, Seed: rRace.U64()}},
			caseIn{Race: &raceIn{Mode: 2, Trials: 2500 * mult, Seed: rRace.U64()}},
			caseIn{Race: &raceIn{Mode: 1, Trials: 4000 * mult, Seed: rRace.U64()}})
	}

	var cases []gen.Case
	stats := map[string]int{}
	results, leaked := runIsolated(o, inputs)
	for _, res := range results {
		in := res.in
		cases = append(cases, res.c)
		if res.c.Kind == "crash" {
			stats["crashed_cases"]++
		}
		if in.Race != nil {
			var m map[string]int
			if raw, ok := res.c.Obs.(json.RawMessage); ok {
				_ = json.Unmarshal(raw, &m)
			}
			stats[fmt.Sprintf("race%d_trials", in.Race.Mode)] += m["trials"]
			stats[fmt.Sprintf("race%d_hangs", in.Race.Mode)] += m["hangs"]
			stats[fmt.Sprintf("race%d_lost", in.Race.Mode)] += m["lost"]
			continue
		}
		if in.Reg != nil {
			stats["registry_cases"]++
			topics := map[int]bool{}
			for _, g := range in.Reg.Groups {
				stats["registry_groups"]++
				if g.Hold {
					stats["registry_groups_behind_held_lock"]++
				}
				if g.ClearAfter {
					stats["registry_clear_between_groups"]++
				}
				stats["registry_first_uses"] += len(g.Prods)
				for _, pr := range g.Prods {
					topics[pr.Topic] = true
					stats["events"] += pr.N
				}
			}
			stats[fmt.Sprintf("registry_topics_%d", len(topics))]++
			continue
		}
		// measured input distribution
		prods := map[int]bool{}
		closeSeen := false
		for _, op := range in.Ops {
			stats["op_"+op.Op]++
			if op.Op == "close" {
				closeSeen = true
			}
			evs := op.Burst
			if op.Ev != nil {
				evs = []evIn{*op.Ev}
			}
			if op.Full != nil {
				fps, total := op.Full.resolve(10000)
				if total >= 10000 {
					stats["full_channel"]++
					stats[fmt.Sprintf("full_channel_capacity_plus_%d", total-10000)]++
				} else {
					stats["full_fits"]++
				}
				stats["events"] += total
				stats[fmt.Sprintf("kind_%d", min(op.Full.K, 9))] += total
				for _, fp := range fps {
					if fp.N > 0 {
						prods[fp.P] = true
					}
				}
			}
			if op.Op == "burst" {
				switch n := len(evs); {
				case n < 99:
					stats["burst_lt99"]++
				case n <= 101:
					stats["burst_99_101"]++
				default:
					stats["burst_gt101"]++
				}
			}
			for _, e := range evs {
				prods[e.P] = true
				stats[fmt.Sprintf("kind_%d", min(e.K, 9))]++
				stats["events"]++
				if closeSeen {
					stats["events_after_close"]++
				}
			}
		}
		stats[fmt.Sprintf("producers_%d", len(prods))]++
	}
	extra := map[string]any{"stats": stats, "leaked_waiting_writers": leaked}
	if err := gen.WriteCases(o, "C19", "From Verif Require Import Common EventRegistry EventWriter.", "c19_case", "report19", cases, extra); err != nil {
		panic(err)
	}
}
