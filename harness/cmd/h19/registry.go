// Registry cases of h19: the per-topic writer registry of core/the (EventWriterWithTopic /
// createOrGetWriter / ClearEventWriters), the glue through which every producer in the core
// reaches its KafkaWriter.  A case is a sequence of groups of producers; the producers of a group
// use their topic at the same moment: the harness holds the registry lock (verif hook), starts
// one goroutine per producer — each calls the.EventWriterWithTopic(topic) and parks behind the
// lock —, waits until all are parked inside createOrGetWriter, and lets go.  Every producer then
// publishes numbered events, the first through the writer it was handed, the following ones
// through a fresh the.EventWriterWithTopic(topic) each, as the core does.  A group may be followed
// by the.ClearEventWriters(); the case ends with one.  Observed: the identity of the writer
// every call returned, the registry before the final Clear, the writingLoop / batchingLoop
// goroutines left after it, the events in the order they reached the write functions.
package main

import (
	"fmt"
	"runtime"
	"sort"
	"strings"
	"sync"
	"sync/atomic"
	"time"

	"github.com/AliceO2Group/Control/common/event"
	"github.com/AliceO2Group/Control/common/event/topic"
	pb "github.com/AliceO2Group/Control/common/protos"
	"github.com/AliceO2Group/Control/core/the"
	"github.com/segmentio/kafka-go"
	"github.com/spf13/viper"

	"verif/harness/internal/gen"
)

type regProd struct {
	P     int `json:"p"`
	Topic int `json:"topic"`
	N     int `json:"n"` // events
}

type regGroup struct {
	Hold       bool      `json:"hold,omitempty"` // first use behind the held registry lock
	Prods      []regProd `json:"prods"`
	ClearAfter bool      `json:"clear_after,omitempty"`
}

type regIn struct {
	Groups []regGroup `json:"groups"`
}

func regTopic(k int) topic.Topic { return topic.Topic(fmt.Sprintf("verif-c19-reg-%d", k)) }

func allStacks() string {
	buf := make([]byte, 1<<18)
	for {
		n := runtime.Stack(buf, true)
		if n < len(buf) {
			return string(buf[:n])
		}
		buf = make([]byte, 2*len(buf))
	}
}

func loopGoroutines() int {
	n := 0
	for _, g := range strings.Split(allStacks(), "\n\n") {
		if isWriterLoop(g) || isBatcherLoop(g) {
			n++
		}
	}
	return n
}

// goroutines inside createOrGetWriter, and how many of them are parked (not running / runnable)
func inRegistry() (inside, parked int) {
	for _, g := range strings.Split(allStacks(), "\n\n") {
		if !strings.Contains(g, "the.EventWriterWithTopic") {
			continue
		}
		inside++
		if nl := strings.IndexByte(g, '\n'); nl > 0 && !strings.Contains(g[:nl], "[running") && !strings.Contains(g[:nl], "[runnable") {
			parked++
		}
	}
	return
}

const regTimeout = 5 * time.Second

func runRegistry(in regIn) gen.Case {
	viper.Set("enableKafka", true)
	viper.Set("kafkaEndpoints", []string{"127.0.0.1:1"})
	the.ClearEventWriters()
	time.Sleep(time.Millisecond)
	base := loopGoroutines()

	var mu sync.Mutex
	ids := map[event.Writer]int{} // identity, by first occurrence
	var order []event.Writer
	idOf := func(w event.Writer) int {
		mu.Lock()
		defer mu.Unlock()
		if id, ok := ids[w]; ok {
			return id
		}
		ids[w] = len(ids) + 1
		order = append(order, w)
		return ids[w]
	}
	var flat [][2]int
	var pubs int64
	prepared := map[event.Writer]bool{}
	prepare := func(w event.Writer) {
		kw, ok := w.(*event.KafkaWriter)
		if !ok || prepared[w] {
			return
		}
		prepared[w] = true
		event.VerifC19SetWrite(kw, func(ms []kafka.Message) {
			mu.Lock()
			defer mu.Unlock()
			for _, m := range ms {
				o := decode(m)
				flat = append(flat, [2]int{o.P, o.T})
			}
		})
	}
	type call struct {
		topic int // 0 = ClearEventWriters
		id    int // identity of the writer returned (by first occurrence), 0 for a Clear
	}
	var ops []call // id 0 = Clear
	closedByRegistry := map[event.Writer]bool{}
	res := 0
	tags := map[int]int{}
	clearNow := func() {
		for _, w := range the.VerifC19Registered() {
			closedByRegistry[w] = true
		}
		the.ClearEventWriters()
		ops = append(ops, call{0, 0})
	}

	for gi, g := range in.Groups {
		var release func()
		if g.Hold {
			release = the.VerifC19RegistryHold()
		}
		n := len(g.Prods)
		first := make([]event.Writer, n)
		got := make(chan int, n)
		goAhead := make(chan struct{})
		later := make([][]event.Writer, n)
		var wg sync.WaitGroup
		for i, pr := range g.Prods {
			i, pr := i, pr
			t0 := tags[pr.P]
			tags[pr.P] += pr.N
			wg.Add(1)
			go func() {
				defer wg.Done()
				defer func() { _ = recover() }()
				first[i] = the.EventWriterWithTopic(regTopic(pr.Topic))
				got <- i
				<-goAhead
				for k := 0; k < pr.N; k++ {
					w := first[i]
					if k > 0 {
						w = the.EventWriterWithTopic(regTopic(pr.Topic))
						later[i] = append(later[i], w)
					}
					w.WriteEvent(&pb.Ev_MetaEvent_CoreStart{FrameworkId: fmt.Sprintf("%d:%d", pr.P, t0+k)})
					atomic.AddInt64(&pubs, 1)
				}
			}()
		}
		if g.Hold {
			// all of them parked inside createOrGetWriter, behind the lock
			for t0 := time.Now(); time.Since(t0) < regTimeout; {
				inside, parked := inRegistry()
				if inside == n && parked == n {
					break
				}
				time.Sleep(200 * time.Microsecond)
			}
			release()
		}
		timeout := time.After(regTimeout)
		for k := 0; k < n && res == 0; k++ {
			select {
			case <-got:
			case <-timeout:
				res = 9
			}
		}
		if res != 0 {
			close(goAhead)
			break
		}
		for i, pr := range g.Prods {
			ops = append(ops, call{pr.Topic, idOf(first[i])})
			prepare(first[i])
		}
		// whatever is registered must be prepared too before anything is published
		for _, w := range the.VerifC19Registered() {
			idOf(w)
			prepare(w)
		}
		close(goAhead)
		done := make(chan struct{})
		go func() { wg.Wait(); close(done) }()
		select {
		case <-done:
		case <-time.After(regTimeout):
			res = 9
		}
		if res != 0 {
			break
		}
		for i, pr := range g.Prods {
			for _, w := range later[i] {
				ops = append(ops, call{pr.Topic, idOf(w)})
			}
		}
		if g.ClearAfter && gi < len(in.Groups)-1 {
			clearNow()
		}
	}

	// the registry before the final Clear
	var registered [][2]int
	for t, w := range the.VerifC19Registered() {
		k := 0
		fmt.Sscanf(string(t), "verif-c19-reg-%d", &k)
		registered = append(registered, [2]int{k, idOf(w)})
	}
	sort.Slice(registered, func(a, b int) bool { return registered[a][0] < registered[b][0] })
	clearNow()
	leaked := 0
	for t0 := time.Now(); ; {
		leaked = loopGoroutines() - base
		if leaked <= 0 || time.Since(t0) > 2*time.Second {
			break
		}
		time.Sleep(time.Millisecond)
	}
	if leaked < 0 {
		leaked = 0
	}
	// tidy up: writers that were handed out and never closed by the registry
	orphans := 0
	for _, w := range order {
		if kw, ok := w.(*event.KafkaWriter); ok && !closedByRegistry[w] {
			orphans++
			func() {
				defer func() { _ = recover() }()
				kw.Close()
			}()
		}
	}
	mu.Lock()
	defer mu.Unlock()
	opT := make([]string, len(ops))
	hT := make([]string, len(ops))
	for i, c := range ops {
		if c.topic == 0 {
			opT[i] = "RClear"
		} else {
			opT[i] = fmt.Sprintf("RGet %d", c.topic)
		}
		hT[i] = fmt.Sprint(c.id)
	}
	rT := make([]string, len(registered))
	for i, r := range registered {
		rT[i] = fmt.Sprintf("(%d, %d)", r[0], r[1])
	}
	fT := make([]string, len(flat))
	for i, f := range flat {
		fT[i] = fmt.Sprintf("(%d, %d)", f[0], f[1])
	}
	np := atomic.LoadInt64(&pubs)
	return gen.Case{
		Term: fmt.Sprintf("CReg %s %s %s %d %d %s %d", gen.List(opT), gen.List(hT), gen.List(rT), leaked, np, gen.List(fT), res),
		Kind:  "registry",
		Input: caseIn{Reg: &in},
		Obs: map[string]interface{}{"calls_topic_writer": callsJSON(len(ops), func(i int) [2]int { return [2]int{ops[i].topic, ops[i].id} }), "distinct_writers": len(order), "registered_before_final_clear": registered,
			"writer_goroutines_left_after_clear": leaked, "never_closed_by_registry": orphans,
			"published": np, "reached_broker": len(flat), "res": res},
	}
}

func genReg(r *gen.Rand) caseIn {
	var in regIn
	ngroups := 1
	if r.Chance(1, 3) {
		ngroups = 2
	}
	ntopics := 1
	if r.Chance(1, 3) {
		ntopics = r.Range(2, 3)
	}
	p := 0
	topicOf := map[int]int{} // a producer stays with its topic (order is a per-topic matter)
	for g := 0; g < ngroups; g++ {
		grp := regGroup{Hold: !r.Chance(1, 5), ClearAfter: r.Chance(1, 2)}
		np := r.Range(2, 8)
		used := map[int]bool{}
		for i := 0; i < np; i++ {
			pr := regProd{P: p, N: r.Range(1, 4)}
			if g > 0 && r.Chance(1, 2) {
				pr.P = r.Intn(p) // a producer of the first group again
			}
			if used[pr.P] {
				pr.P = p
			}
			if pr.P == p {
				p++
				topicOf[pr.P] = 1 + r.Intn(ntopics)
			}
			used[pr.P] = true
			pr.Topic = topicOf[pr.P]
			grp.Prods = append(grp.Prods, pr)
		}
		in.Groups = append(in.Groups, grp)
	}
	return caseIn{Reg: &in}
}

func callsJSON(n int, f func(int) [2]int) [][2]int {
	out := make([][2]int, n)
	for i := range out {
		out[i] = f(i)
	}
	return out
}
