package main

// The goroutine dumps the harness reads must recognise the two loops of a KafkaWriter.  Their
// function names are unexported and may be renamed; what is stable is that NewWriterWithTopic
// starts them.  The names are learnt once per process from a probe writer: of the two goroutines
// "created by ...event.NewWriterWithTopic", the one that enters the probe's write function is the
// writing loop, the other one the batching loop.

import (
	"fmt"
	"os"
	"strings"
	"sync"
	"time"

	"github.com/AliceO2Group/Control/common/event"
	pb "github.com/AliceO2Group/Control/common/protos"
	"github.com/segmentio/kafka-go"
)

var (
	loopOnce                 sync.Once
	writerLoopFn, batcherLoopFn = ").writingLoop(", ").batchingLoop("
)

// function of the frame the goroutine was started with: the one just above "created by"
func bottomFrame(g string) string {
	lines := strings.Split(g, "\n")
	for i, l := range lines {
		if strings.HasPrefix(l, "created by ") && i >= 2 {
			f := lines[i-2]
			if k := strings.LastIndexByte(f, '('); k > 0 {
				return f[:k] + "("
			}
		}
	}
	return ""
}

func probeWriteFunction(entered chan struct{}, gate chan struct{}) func([]kafka.Message) {
	return func([]kafka.Message) {
		entered <- struct{}{}
		<-gate
	}
}

func learnLoopNames() {
	loopOnce.Do(func() {
		entered, gate := make(chan struct{}, 4), make(chan struct{})
		w := event.VerifC19NewWriter("verif-c19-probe", probeWriteFunction(entered, gate))
		w.WriteEvent(&pb.Ev_MetaEvent_CoreStart{FrameworkId: "probe"})
		select {
		case <-entered:
			var wl, bl string
			for _, g := range strings.Split(allStacks(), "\n\n") {
				if !strings.Contains(g, "event.NewWriterWithTopic") || !strings.Contains(g, "created by ") {
					continue
				}
				if os.Getenv("H19_DEBUG") != "" {
					fmt.Fprintf(os.Stderr, "h19: loop goroutine:\n%s\n", g)
				}
				if strings.Contains(g, "probeWriteFunction") {
					wl = bottomFrame(g)
				} else {
					bl = bottomFrame(g)
				}
			}
			if wl != "" && bl != "" && wl != bl {
				writerLoopFn, batcherLoopFn = wl, bl
			}
			if os.Getenv("H19_DEBUG") != "" {
				fmt.Fprintf(os.Stderr, "h19: loops learnt: writer %q batcher %q\n", wl, bl)
			}
		case <-time.After(3 * time.Second):
		}
		close(gate)
		done := make(chan struct{})
		go func() { w.Close(); close(done) }()
		select {
		case <-done:
		case <-time.After(3 * time.Second):
		}
	})
}

func isWriterLoop(g string) bool  { learnLoopNames(); return strings.Contains(g, writerLoopFn) }
func isBatcherLoop(g string) bool { learnLoopNames(); return strings.Contains(g, batcherLoopFn) }
