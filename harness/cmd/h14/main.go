// h14: correspondence harness for C14 (variables resolve by documented precedence).
//
// Drives the real code of /repo:
//   - common/gera: MakeMapWithMap / Wrap / Set / Del / Get / Len / Flattened / FlattenedParent /
//     WrappedAndFlattened / FlattenStack on generated hierarchies                       (gera, flatstack)
//   - configuration/template: Sequence.Execute -> VarStack.consolidated -> Fields.Execute on
//     the field "{{ key }}" at each of the stages                                           (stage)
//   - core/workflow: a workflow document is unmarshalled and ProcessTemplates runs on it
//     (hook VerifC14LoadYAMLInc = Load minus repository manager; include roles find their
//     sub-workflow documents by name in a table, and the include role's own maps are read at the
//     moment it asks for its sub-workflow), under a ParentAdapter holding
//     the environment-wide maps (optionally read through apricot's file backend with
//     GetDefaults/GetVars as newEnvironment does); SetRuntimeVar/DeleteRuntimeVar at inner
//     roles; then ConsolidatedVarStack / ConsolidatedVarMaps / own maps at every role        (tree)
//   - core/task: Task.BuildTaskCommand and Task.BuildPropertyMap on a task (hook
//     VerifC14NewTask = field initialisation of newTaskForMesosOffer) whose parent is a real
//     task role at the bottom of a real role chain; the value of "{{ key }}" as command-line
//     argument and as property                                                               (task)
//
// `h14 -gen FILE` enumerates, on the running code, which sources every template stage sees
// and writes coq/gen/Gen_VarStages.v.
package main

import (
	"encoding/json"
	"fmt"
	"io"
	"os"
	"path/filepath"
	"sort"
	"strconv"
	"strings"
	texttemplate "text/template"

	"github.com/AliceO2Group/Control/apricot/local"
	"github.com/AliceO2Group/Control/common"
	"github.com/AliceO2Group/Control/common/controlmode"
	"github.com/AliceO2Group/Control/common/event"
	"github.com/AliceO2Group/Control/common/gera"
	"github.com/AliceO2Group/Control/common/utils/uid"
	"github.com/AliceO2Group/Control/configuration/template"
	"github.com/AliceO2Group/Control/core/repos"
	"github.com/AliceO2Group/Control/core/task"
	"github.com/AliceO2Group/Control/core/task/channel"
	"github.com/AliceO2Group/Control/core/task/sm"
	"github.com/AliceO2Group/Control/core/task/taskclass"
	"github.com/AliceO2Group/Control/core/workflow"
	"github.com/AliceO2Group/Control/core/workflow/callable"
	"github.com/sirupsen/logrus"
	"github.com/spf13/viper"

	"verif/harness/internal/gen"
)

// ---------------------------------------------------------------- inputs (JSON, for replay)

type smap = map[string]string

// hop: Set (Val != nil) or Del on the map at depth Lvl of a hierarchy / on the user vars of the
// role at Addr.
type hop struct {
	Lvl  int     `json:"lvl,omitempty"`
	Addr []int   `json:"addr,omitempty"`
	Key  string  `json:"key"`
	Val  *string `json:"val"`
}

type tv struct {
	Ref string `json:"ref,omitempty"` // "{{ ref }}" when non-empty
	Lit string `json:"lit"`
	// how an entry of a role's defaults/vars block is written in the document: "" plain scalar,
	// "public" = !public {value: <text>, type: ..., label: ...}, "public_novalue" = !public block
	// without a value (defines the empty string, as coded), "other" = an untagged mapping (not a
	// definition). Ignored for task class maps, which are not read from a document.
	Form string `json:"form,omitempty"`
}

type roleIn struct {
	NameRef  string        `json:"name_ref,omitempty"` // name is "n{{ NameRef }}" when set, "r" otherwise
	Defaults map[string]tv `json:"defaults,omitempty"`
	Vars     map[string]tv `json:"vars,omitempty"`
	Children []*roleIn     `json:"children,omitempty"`
	Leaf     string        `json:"leaf,omitempty"` // task | call (childless roles)
	IterVar  string        `json:"iter_var,omitempty"`
	IterVals []string      `json:"iter_vals,omitempty"`
	// templated range specs (used instead of IterVals when set): range: '[items...]' with literal or
	// {{ key }} items, or begin:/end: each a literal or {{ key }}
	IterItems []tv `json:"iter_items,omitempty"`
	IterBegin *tv  `json:"iter_begin,omitempty"`
	IterEnd   *tv  `json:"iter_end,omitempty"`
	Tpl      *roleIn       `json:"tpl,omitempty"`
	// include role: Defaults/Vars/NameRef are its own, Sub is the root of the sub-workflow it names
	// (Defaults, Vars, Children; the root's name is the name of the generated document)
	Sub *roleIn `json:"sub,omitempty"`
}

// kids: the children a role has in the loaded tree (an include role has its sub-workflow root's)
func (r *roleIn) kids() []*roleIn {
	if r.Sub != nil {
		return r.Sub.Children
	}
	return r.Children
}

type lvl struct {
	D smap `json:"d"`
	V smap `json:"v"`
	U smap `json:"u"`
}

type input struct {
	// gera
	H     []smap   `json:"h,omitempty"`
	Ops   []hop    `json:"ops,omitempty"`
	Other []smap   `json:"other,omitempty"`
	Keys  []string `json:"keys,omitempty"`
	// flatstack
	Hs [][]smap `json:"hs,omitempty"`
	// stage
	Locals smap   `json:"locals,omitempty"`
	D      []smap `json:"d,omitempty"`
	V      []smap `json:"v,omitempty"`
	U      []smap `json:"u,omitempty"`
	// tree
	Env     *lvl    `json:"env,omitempty"`
	Backend bool    `json:"backend,omitempty"` // environment defaults/vars go through apricot's file backend
	Tree    *roleIn `json:"tree,omitempty"`
	// task
	Path []lvl         `json:"path,omitempty"` // leaf role first, environment last
	CD   map[string]tv `json:"class_defaults,omitempty"`
	CV   map[string]tv `json:"class_vars,omitempty"`
}

// ---------------------------------------------------------------- Coq printers

func sortedKeys[T any](m map[string]T) []string {
	ks := make([]string, 0, len(m))
	for k := range m {
		ks = append(ks, k)
	}
	sort.Strings(ks)
	return ks
}

func hierTerm(h []smap) string {
	it := make([]string, len(h))
	for i, m := range h {
		it[i] = gen.KVs(m)
	}
	return gen.List(it)
}

func optStr(s *string) string {
	if s == nil {
		return gen.None()
	}
	return gen.Some(gen.Str(*s))
}

func optList(l []*string) string {
	it := make([]string, len(l))
	for i, s := range l {
		it[i] = optStr(s)
	}
	return gen.List(it)
}

func mopTerm(o hop) string {
	if o.Val == nil {
		return "MDel " + gen.Str(o.Key)
	}
	return "MSet " + gen.Str(o.Key) + " " + gen.Str(*o.Val)
}

func tvTerm(v tv) string {
	if v.Ref != "" {
		return "VRef " + gen.Str(v.Ref)
	}
	return "VLit " + gen.Str(v.Lit)
}

func rmapTerm(m map[string]tv) string {
	ks := sortedKeys(m)
	it := make([]string, len(ks))
	for i, k := range ks {
		it[i] = gen.Pair(gen.Str(k), tvTerm(m[k]))
	}
	return gen.List(it)
}

// wmapTerm: a defaults/vars block as written (wmap)
func wmapTerm(m map[string]tv) string {
	ks := sortedKeys(m)
	it := make([]string, len(ks))
	for i, k := range ks {
		var e string
		switch m[k].Form {
		case "public":
			e = "WPublic (Some (" + tvTerm(m[k]) + "))"
		case "public_novalue":
			e = "WPublic None"
		case "other":
			e = "WOther"
		default:
			e = "WPlain (" + tvTerm(m[k]) + ")"
		}
		it[i] = gen.Pair(gen.Str(k), e)
	}
	return gen.List(it)
}

// docMap: a defaults/vars block for the document; the annotated entries carry a marker that
// publicTags turns into the !public tag after JSON encoding
func docMap(m map[string]tv) map[string]any {
	d := map[string]any{}
	for k, v := range m {
		switch v.Form {
		case "public":
			d[k] = map[string]any{"__public__": true, "value": tvText(v), "type": "string", "label": "L " + k}
		case "public_novalue":
			d[k] = map[string]any{"__public__": true, "type": "string", "label": "L " + k}
		case "other":
			d[k] = map[string]any{"value": tvText(v)}
		default:
			d[k] = tvText(v)
		}
	}
	return d
}

// publicTags: JSON is YAML, but JSON has no tags
func publicTags(doc []byte) []byte {
	return []byte(strings.ReplaceAll(string(doc), `:{"__public__":true,`, `: !public {`))
}

func lvlTerm(l lvl) string {
	return fmt.Sprintf("(mkLevel %s %s %s)", gen.KVs(l.D), gen.KVs(l.V), gen.KVs(l.U))
}

func roleTerm(r *roleIn) string {
	if r.Tpl != nil {
		return fmt.Sprintf("(RIter %s %s %s)", gen.Str(r.IterVar), rangeTerm(r), roleTerm(r.Tpl))
	}
	nm := gen.None()
	if r.NameRef != "" {
		nm = gen.Some(gen.Str(r.NameRef))
	}
	ch := make([]string, len(r.kids()))
	for i, c := range r.kids() {
		ch[i] = roleTerm(c)
	}
	if r.Sub != nil {
		return fmt.Sprintf("(RIncl %s %s %s %s %s %s)", nm, wmapTerm(r.Defaults), wmapTerm(r.Vars),
			wmapTerm(r.Sub.Defaults), wmapTerm(r.Sub.Vars), gen.List(ch))
	}
	return fmt.Sprintf("(RRole %s %s %s %s)", nm, wmapTerm(r.Defaults), wmapTerm(r.Vars), gen.List(ch))
}

// rangeTerm: the irange of an iterator as written in its document (see roleDoc)
func rangeTerm(r *roleIn) string {
	if r.IterBegin != nil && r.IterEnd != nil {
		return fmt.Sprintf("(IFor (%s) (%s))", tvTerm(*r.IterBegin), tvTerm(*r.IterEnd))
	}
	items := r.IterItems
	if items == nil {
		if b, e, ok := numericRun(r.IterVals); ok {
			return fmt.Sprintf("(IFor (%s) (%s))", tvTerm(tv{Lit: b}), tvTerm(tv{Lit: e}))
		}
		for _, v := range r.IterVals {
			items = append(items, tv{Lit: v})
		}
	}
	it := make([]string, len(items))
	for i, v := range items {
		it[i] = tvTerm(v)
	}
	return "(IList " + gen.List(it) + ")"
}

// numericRun: the literal values are consecutive integers in canonical decimal form (written as
// begin/end in the document)
func numericRun(vals []string) (string, string, bool) {
	if len(vals) == 0 {
		return "", "", false
	}
	for i, v := range vals {
		n, err := strconv.Atoi(v)
		if err != nil || strconv.Itoa(n) != v || n < 0 {
			return "", "", false
		}
		if i > 0 {
			if p, _ := strconv.Atoi(vals[i-1]); n != p+1 {
				return "", "", false
			}
		}
	}
	return vals[0], vals[len(vals)-1], true
}

func nlist(a []int) string {
	it := make([]string, len(a))
	for i, x := range a {
		it[i] = strconv.Itoa(x)
	}
	return gen.List(it)
}

// ---------------------------------------------------------------- gera level

func buildHier(h []smap) []*gera.WrapMap[string, string] {
	ws := make([]*gera.WrapMap[string, string], len(h))
	for i := range h {
		ws[i] = gera.MakeMapWithMapCopy(h[i])
	}
	for i := 0; i+1 < len(ws); i++ {
		ws[i].Wrap(ws[i+1])
	}
	return ws
}

func must(m smap, err error) smap {
	if err != nil {
		panic(err)
	}
	if m == nil {
		m = smap{}
	}
	return m
}

func caseGera(in input) gen.Case {
	ws := buildHier(in.H)
	for _, o := range in.Ops {
		if o.Lvl < len(ws) {
			if o.Val == nil {
				ws[o.Lvl].Del(o.Key)
			} else {
				ws[o.Lvl].Set(o.Key, *o.Val)
			}
		}
	}
	w := ws[0]
	flat := must(w.Flattened())
	flatPar := must(w.FlattenedParent())
	var other gera.Map[string, string]
	if len(in.Other) > 0 {
		other = buildHier(in.Other)[0]
	}
	var waf smap
	if other == nil {
		waf = must(w.WrappedAndFlattened(nil))
	} else {
		waf = must(w.WrappedAndFlattened(other))
	}
	gets := make([]*string, len(in.Keys))
	for i, k := range in.Keys {
		if v, ok := w.Get(k); ok {
			vv := v
			gets[i] = &vv
			if !w.Has(k) {
				panic("Has disagrees with Get")
			}
		} else if w.Has(k) {
			panic("Has disagrees with Get")
		}
	}
	ln := w.Len()
	ops := make([]string, len(in.Ops))
	for i, o := range in.Ops {
		ops[i] = gen.Pair(strconv.Itoa(o.Lvl), mopTerm(o))
	}
	term := fmt.Sprintf("CGera %s %s %s %s %s %s %s %s %d", hierTerm(in.H), gen.List(ops), hierTerm(in.Other),
		gen.StrList(in.Keys), gen.KVs(flat), gen.KVs(flatPar), gen.KVs(waf), optList(gets), ln)
	return gen.Case{Term: term, Kind: "gera", Input: in,
		Obs: map[string]any{"flattened": flat, "flattened_parent": flatPar, "wrapped_and_flattened": waf, "get": gets, "len": ln}}
}

func caseFlatStack(in input) gen.Case {
	var ms []gera.Map[string, string]
	for _, h := range in.Hs {
		ms = append(ms, buildHier(h)[0])
	}
	o := must(gera.FlattenStack(ms...))
	it := make([]string, len(in.Hs))
	for i, h := range in.Hs {
		it[i] = hierTerm(h)
	}
	return gen.Case{Term: fmt.Sprintf("CFlatStack %s %s", gen.List(it), gen.KVs(o)), Kind: "flatstack", Input: in, Obs: o}
}

// ---------------------------------------------------------------- template stages

const nStages = 6

// stageValue runs the real Sequence.Execute with the single field "{{ key }}" at one stage.
func stageValue(vs template.VarStack, stage int, key string) (val *string, ran bool) {
	s := "{{ " + key + " }}"
	seq := template.Sequence{template.Stage(stage): template.Fields{template.WrapGeneric(
		func() string { ran = true; return s },
		func(v string) { s = v })}}
	err := seq.Execute(nil, "verif", vs,
		func(template.Stage) map[string]interface{} { return map[string]interface{}{} },
		nil, map[string]texttemplate.Template{}, nil, template.NullCallback)
	if err != nil {
		return nil, ran
	}
	return &s, ran
}

func mkVarStack(in input) template.VarStack {
	var locals smap
	if in.Locals != nil {
		locals = smap{}
		for k, v := range in.Locals {
			locals[k] = v
		}
	}
	return template.VarStack{Locals: locals, Defaults: buildHier(in.D)[0], Vars: buildHier(in.V)[0], UserVars: buildHier(in.U)[0]}
}

func caseStage(in input) gen.Case {
	vs := mkVarStack(in)
	rows := make([]string, nStages)
	obs := make([][]*string, nStages)
	for st := 0; st < nStages; st++ {
		vals := make([]*string, len(in.Keys))
		for i, k := range in.Keys {
			vals[i], _ = stageValue(vs, st, k)
		}
		obs[st] = vals
		rows[st] = optList(vals)
	}
	term := fmt.Sprintf("CStage %s %s %s %s %s %s", gen.KVs(in.Locals), hierTerm(in.D), hierTerm(in.V), hierTerm(in.U),
		gen.StrList(in.Keys), gen.List(rows))
	return gen.Case{Term: term, Kind: "stage", Input: in, Obs: obs}
}

// genStages: the visibility table of the running code (finite domain: stages x marker sources).
func genStages(out string) {
	markers := []string{"od", "ov", "ou", "pd", "pv", "pu", "lo"}
	in := input{Locals: smap{"lo": "1"},
		D: []smap{{"od": "1"}, {"pd": "1"}}, V: []smap{{"ov": "1"}, {"pv": "1"}}, U: []smap{{"ou": "1"}, {"pu": "1"}}}
	vs := mkVarStack(in)
	count := 0
	for st := 0; st < 16; st++ {
		_, ran := stageValue(vs, st, "lo")
		if ran {
			if st != count {
				fmt.Fprintln(os.Stderr, "h14 -gen: executed stages are not a prefix of 0..15")
				os.Exit(3)
			}
			count++
		}
	}
	var b strings.Builder
	b.WriteString("(* regenerated on every run by `h14 -gen` from the running code of\n   configuration/template/fields.go (Sequence.Execute / VarStack.consolidated):\n   for every executed stage, which of the sources\n   [own defaults; own vars; own user vars; parent defaults; parent vars; parent user vars; locals]\n   a field of that stage can see *)\n")
	b.WriteString("From Verif Require Import Common.\nOpen Scope N_scope.\n")
	b.WriteString("Definition stage_rows : list (N * list bool) := [\n")
	for st := 0; st < count; st++ {
		row := make([]string, len(markers))
		for i, m := range markers {
			v, _ := stageValue(vs, st, m)
			row[i] = gen.Bool(v != nil && *v == "1")
		}
		sep := ";"
		if st == count-1 {
			sep = ""
		}
		fmt.Fprintf(&b, "  (%d, %s)%s\n", st, gen.List(row), sep)
	}
	b.WriteString("].\n")
	fmt.Fprintf(&b, "Definition stage_count : N := %d.\n", count)
	old, err := os.ReadFile(out)
	if err == nil && string(old) == b.String() {
		return
	}
	if err := os.WriteFile(out, []byte(b.String()), 0o644); err != nil {
		fmt.Fprintln(os.Stderr, err)
		os.Exit(3)
	}
}

// ---------------------------------------------------------------- role trees

func tvText(v tv) string {
	if v.Ref != "" {
		return "{{ " + v.Ref + " }}"
	}
	return v.Lit
}

func roleDoc(r *roleIn) map[string]any {
	if r.Tpl != nil {
		d := roleDoc(r.Tpl)
		switch b, e, numeric := numericRun(r.IterVals); {
		case r.IterBegin != nil && r.IterEnd != nil:
			d["for"] = map[string]any{"begin": tvText(*r.IterBegin), "end": tvText(*r.IterEnd), "var": r.IterVar}
		case r.IterItems != nil:
			items := make([]string, len(r.IterItems))
			for i, v := range r.IterItems {
				items[i] = tvText(v)
			}
			j, _ := json.Marshal(items)
			d["for"] = map[string]any{"range": string(j), "var": r.IterVar}
		case numeric:
			d["for"] = map[string]any{"begin": b, "end": e, "var": r.IterVar}
		default:
			j, _ := json.Marshal(r.IterVals)
			d["for"] = map[string]any{"range": string(j), "var": r.IterVar}
		}
		return d
	}
	d := map[string]any{}
	if r.NameRef != "" {
		d["name"] = "n{{ " + r.NameRef + " }}"
	} else {
		d["name"] = "r"
	}
	if r.Defaults != nil {
		d["defaults"] = docMap(r.Defaults)
	}
	if r.Vars != nil {
		d["vars"] = docMap(r.Vars)
	}
	switch {
	case r.Sub != nil:
		// the sub-workflow goes into a document of its own, found by the loader hook under its name
		name := "sub" + strconv.Itoa(len(subDocs))
		subDocs[name] = nil // reserve the name before the children are written
		sd := roleDoc(&roleIn{Defaults: r.Sub.Defaults, Vars: r.Sub.Vars, Children: r.Sub.Children})
		sd["name"] = name
		doc, err := json.Marshal(sd)
		if err != nil {
			panic(err)
		}
		subDocs[name] = publicTags(doc)
		d["include"] = name
	case len(r.Children) > 0:
		var ch []any
		for _, c := range r.Children {
			ch = append(ch, roleDoc(c))
		}
		d["roles"] = ch
	case r.Leaf == "call" && len(callFuncs) > 0:
		d["call"] = map[string]any{"func": callFuncs[0], "return": "ret", "trigger": "before_CONFIGURE", "critical": false}
		callFuncs = callFuncs[1:]
	case r.Leaf == "call":
		d["call"] = map[string]any{"func": "verif.Noop()", "trigger": "before_CONFIGURE", "critical": false}
	default:
		d["task"] = map[string]any{"load": "cls"}
	}
	return d
}

var nilID = uid.NilID()

// functions of the call roles of the document being written (call cases only)
var callFuncs []string

func parentAdapter(d, v, u smap) *workflow.ParentAdapter {
	gd, gv, gu := gera.MakeMapWithMap(d), gera.MakeMapWithMap(v), gera.MakeMapWithMap(u)
	return workflow.NewParentAdapter(func() uid.ID { return nilID }, func() uint32 { return 0 },
		func() gera.Map[string, string] { return gd }, func() gera.Map[string, string] { return gv },
		func() gera.Map[string, string] { return gu }, func(event.Event) {})
}

func yq(s string) string { b, _ := json.Marshal(s); return string(b) }

// throughBackend stores the environment-wide defaults and vars in a file backend and reads them
// back with the calls newEnvironment makes (ConfSvc().GetDefaults() / GetVars()).
func throughBackend(dir string, d, v smap) (smap, smap) {
	var b strings.Builder
	b.WriteString("o2:\n  runtime:\n    aliecs:\n")
	for _, part := range []struct {
		n string
		m smap
	}{{"defaults", d}, {"vars", v}} {
		b.WriteString("      " + part.n + ":\n")
		for _, k := range sortedKeys(part.m) {
			b.WriteString("        " + yq(k) + ": " + yq(part.m[k]) + "\n")
		}
		if len(part.m) == 0 {
			b.WriteString("        zz-unused-subtree: {x: y}\n")
		}
	}
	f := filepath.Join(dir, "env.yaml")
	if err := os.WriteFile(f, []byte(b.String()), 0o644); err != nil {
		panic(err)
	}
	svc, err := local.NewService("file://" + f)
	if err != nil {
		panic(err)
	}
	return svc.GetDefaults(), svc.GetVars()
}

func copyMap(m smap) smap {
	c := smap{}
	for k, v := range m {
		c[k] = v
	}
	return c
}

var dummyRepo repos.Repo

// sub-workflow documents of the workflow document being written, by include name
var subDocs = map[string][]byte{}

// own maps of the include roles of the tree loaded last, as they were when the include role asked
// for its sub-workflow (after its own templates were processed, before the loaded root took its
// place), by role
var hidOf = map[workflow.Role]lvl{}

type viewObs struct {
	Addr  []int  `json:"addr"`
	Name  string `json:"name"`
	Own   lvl    `json:"own"`
	Hid   []lvl  `json:"hid,omitempty"`
	Stack smap   `json:"stack"`
	Maps  lvl    `json:"maps"`
}

func roleAt(root workflow.Role, addr []int) workflow.Role {
	if len(addr) == 0 || addr[0] != 0 {
		return nil
	}
	r := root
	for _, i := range addr[1:] {
		ch := r.GetRoles()
		if i >= len(ch) {
			return nil
		}
		r = ch[i]
	}
	return r
}

func walk(r workflow.Role, addr []int, out *[]viewObs) {
	st := must(r.ConsolidatedVarStack())
	d, v, u, err := r.ConsolidatedVarMaps()
	if err != nil {
		panic(err)
	}
	a := append([]int{}, addr...)
	var hid []lvl
	if h, ok := hidOf[r]; ok {
		hid = []lvl{h}
	}
	*out = append(*out, viewObs{Addr: a, Name: r.GetName(), Hid: hid,
		Own:   lvl{copyMap(r.GetDefaults().Raw()), copyMap(r.GetVars().Raw()), copyMap(r.GetUserVars().Raw())},
		Stack: st, Maps: lvl{must(d, nil), must(v, nil), must(u, nil)}})
	for i, c := range r.GetRoles() {
		walk(c, append(addr, i), out)
	}
}

// loadTree returns the loaded root and the effective environment-wide maps (what the
// configuration service returned when the case goes through the file backend).
func loadTree(tmp string, in input) (workflow.Role, lvl, error) {
	env := lvl{copyMap(in.Env.D), copyMap(in.Env.V), copyMap(in.Env.U)}
	if in.Backend {
		env.D, env.V = throughBackend(tmp, in.Env.D, in.Env.V)
	}
	pa := parentAdapter(copyMap(env.D), copyMap(env.V), copyMap(env.U))
	subDocs = map[string][]byte{}
	doc, err := json.Marshal(roleDoc(in.Tree)) // JSON is YAML
	if err != nil {
		panic(err)
	}
	doc = publicTags(doc)
	hidOf = map[workflow.Role]lvl{}
	root, err := workflow.VerifC14LoadYAMLInc(doc, subDocs, pa, &dummyRepo, smap{}, func(inc workflow.Role) {
		hidOf[inc] = lvl{copyMap(inc.GetDefaults().Raw()), copyMap(inc.GetVars().Raw()), copyMap(inc.GetUserVars().Raw())}
	})
	return root, env, err
}

func caseTree(tmp string, in input) gen.Case {
	root, env, err := loadTree(tmp, in)
	ops := make([]string, len(in.Ops))
	for i, o := range in.Ops {
		ops[i] = gen.Pair(nlist(o.Addr), mopTerm(o))
	}
	obsTerm := gen.None()
	var views []viewObs
	if err == nil {
		for _, o := range in.Ops {
			if r := roleAt(root, o.Addr); r != nil {
				if o.Val == nil {
					r.DeleteRuntimeVar(o.Key)
				} else {
					r.SetRuntimeVar(o.Key, *o.Val)
				}
			}
		}
		walk(root, []int{0}, &views)
		it := make([]string, len(views))
		for i, w := range views {
			hid := make([]string, len(w.Hid))
			for j, h := range w.Hid {
				hid[j] = lvlTerm(h)
			}
			it[i] = fmt.Sprintf("mkView %s %s %s %s %s %s", nlist(w.Addr), gen.Str(w.Name), lvlTerm(w.Own), gen.List(hid), gen.KVs(w.Stack), lvlTerm(w.Maps))
		}
		obsTerm = gen.Some(gen.List(it))
	}
	term := fmt.Sprintf("CTree %s %s %s %s", lvlTerm(env), roleTerm(in.Tree), gen.List(ops), obsTerm)
	var o any = views
	if err != nil {
		o = "load failed"
	}
	return gen.Case{Term: term, Kind: "tree", Input: in, Obs: o}
}

// ---------------------------------------------------------------- task level

// the method set of core/task's unexported parentRole interface
type taskParent interface {
	UpdateStatus(task.Status)
	UpdateState(sm.State)
	GetPath() string
	GetTaskClass() string
	GetTaskTraits() task.Traits
	SetTask(*task.Task)
	GetEnvironmentId() uid.ID
	CollectOutboundChannels() []channel.Outbound
	GetDefaults() gera.Map[string, string]
	GetVars() gera.Map[string, string]
	GetUserVars() gera.Map[string, string]
	ConsolidatedVarStack() (varStack map[string]string, err error)
	CollectInboundChannels() []channel.Inbound
	SendEvent(event.Event)
	GetName() string
}

func litMap(m smap) map[string]tv {
	r := map[string]tv{}
	for k, v := range m {
		r[k] = tv{Lit: v}
	}
	return r
}

func rawOf(m map[string]tv) smap {
	r := smap{}
	for k, v := range m {
		r[k] = tvText(v)
	}
	return r
}

func caseTask(tmp string, in input) gen.Case {
	n := len(in.Path)
	if n < 3 {
		panic("task case needs a task role, at least one aggregator and the environment")
	}
	// a chain of real roles: Path[n-2] is the root, Path[0] the task role, Path[n-1] the environment
	var node *roleIn
	for i := 0; i <= n-2; i++ {
		r := &roleIn{Defaults: litMap(in.Path[i].D), Vars: litMap(in.Path[i].V)}
		if node == nil {
			r.Leaf = "task"
		} else {
			r.Children = []*roleIn{node}
		}
		node = r
	}
	env := in.Path[n-1]
	root, _, err := loadTree(tmp, input{Env: &env, Tree: node})
	if err != nil {
		panic(err)
	}
	r := root
	for i := n - 2; i >= 0; i-- {
		for k, v := range in.Path[i].U {
			r.SetRuntimeVar(k, v)
		}
		if i > 0 {
			r = r.GetRoles()[0]
		}
	}
	pr := r.(taskParent)
	mkTask := func(key string) *task.Task {
		val, user := "cmd", "usr"
		cls := &taskclass.Class{
			Identifier: taskclass.Id{RepoIdentifier: "repo", Hash: "hash", Name: "cls"},
			Defaults:   gera.MakeMapWithMap(rawOf(in.CD)),
			Vars:       gera.MakeMapWithMap(rawOf(in.CV)),
			Command:    &common.CommandInfo{Value: &val, User: &user, Arguments: []string{"{{ " + key + " }}"}},
			Properties: gera.MakeMapWithMap(smap{"p": "{{ " + key + " }}"}),
		}
		cls.Control.Mode = controlmode.DIRECT
		return task.VerifC14NewTask("cls#tid", "tid", "host", cls, pr)
	}
	t0 := mkTask("task_id")
	special := smap{"task_name": t0.GetName(), "task_id": t0.GetTaskId(), "task_class_name": t0.GetClassName(),
		"task_hostname": t0.GetHostname(), "environment_id": pr.GetEnvironmentId().String(), "task_parent_role": pr.GetPath()}
	cmd := make([]*string, len(in.Keys))
	prop := make([]*string, len(in.Keys))
	for i, k := range in.Keys {
		t := mkTask(k)
		if err := t.BuildTaskCommand(pr); err == nil {
			if ci := t.GetTaskCommandInfo(); ci != nil && len(ci.Arguments) > 0 {
				v := ci.Arguments[0]
				cmd[i] = &v
			}
		}
		if pm, err := t.BuildPropertyMap(nil); err == nil {
			if v, ok := pm["p"]; ok {
				prop[i] = &v
			}
		}
	}
	path := make([]string, n)
	for i, l := range in.Path {
		path[i] = lvlTerm(l)
	}
	term := fmt.Sprintf("CTask %s %s %s %s %s %s %s", gen.List(path), gen.KVs(special), rmapTerm(in.CD), rmapTerm(in.CV),
		gen.StrList(in.Keys), optList(cmd), optList(prop))
	return gen.Case{Term: term, Kind: "task", Input: in, Obs: map[string]any{"special": special, "cmd": cmd, "prop": prop}}
}

// ---------------------------------------------------------------- calls

// caseCall: one call role per key at the bottom of a real role chain; the call's function is the
// bare key, so Call() evaluates "{{ key }}" against the stack it builds and stores the result in
// the role's runtime variable "ret".
func caseCall(tmp string, in input) gen.Case {
	n := len(in.Path)
	if n < 3 {
		panic("call case needs a call role, at least one aggregator and the environment")
	}
	var leaves []*roleIn
	for range in.Keys {
		leaves = append(leaves, &roleIn{Defaults: litMap(in.Path[0].D), Vars: litMap(in.Path[0].V), Leaf: "call"})
	}
	node := &roleIn{Defaults: litMap(in.Path[1].D), Vars: litMap(in.Path[1].V), Children: leaves}
	for i := 2; i <= n-2; i++ {
		node = &roleIn{Defaults: litMap(in.Path[i].D), Vars: litMap(in.Path[i].V), Children: []*roleIn{node}}
	}
	env := in.Path[n-1]
	callFuncs = in.Keys
	root, _, err := loadTree(tmp, input{Env: &env, Tree: node})
	callFuncs = nil
	if err != nil {
		panic(err)
	}
	r := root
	for i := n - 2; i >= 1; i-- {
		for k, v := range in.Path[i].U {
			r.SetRuntimeVar(k, v)
		}
		if i > 1 {
			r = r.GetRoles()[0]
		}
	}
	obs := make([]*string, len(in.Keys))
	var special smap
	for i, leaf := range r.GetRoles() {
		for k, v := range in.Path[0].U {
			leaf.SetRuntimeVar(k, v)
		}
		hooks := leaf.GetAllHooks()
		if len(hooks) != 1 {
			panic("call role without hook")
		}
		call, ok := hooks[0].(*callable.Call)
		if !ok {
			panic("hook of a call role is not a call")
		}
		special = smap{"environment_id": leaf.GetEnvironmentId().String()}
		if err := call.Call(); err == nil {
			if v, ok := leaf.GetUserVars().Raw()["ret"]; ok {
				vv := v
				obs[i] = &vv
			}
		}
	}
	path := make([]string, n)
	for i, l := range in.Path {
		path[i] = lvlTerm(l)
	}
	term := fmt.Sprintf("CCall %s %s %s %s", gen.List(path), gen.KVs(special), gen.StrList(in.Keys), optList(obs))
	return gen.Case{Term: term, Kind: "call", Input: in, Obs: obs}
}

// ---------------------------------------------------------------- generators

var alphabet = []string{"a", "b", "c", "d"}
var values = []string{"", "", "x", "y", "z", "1"}

func genMap(r *gen.Rand, num, den int) smap {
	m := smap{}
	for _, k := range alphabet {
		if r.Chance(num, den) {
			m[k] = r.Pick(values)
		}
	}
	return m
}

func genHier(r *gen.Rand, lo, hi int) []smap {
	n := r.Range(lo, hi)
	h := make([]smap, n)
	for i := range h {
		h[i] = genMap(r, 2, 5)
	}
	return h
}

func sp(s string) *string { return &s }

func genGera(r *gen.Rand) input {
	in := input{H: genHier(r, 1, 6), Keys: append([]string{}, alphabet...)}
	if r.Chance(2, 3) {
		in.Other = genHier(r, 1, 3)
	}
	for k := r.Intn(4); k > 0; k-- {
		o := hop{Lvl: r.Intn(len(in.H)), Key: r.Pick(alphabet)}
		if r.Chance(2, 3) {
			o.Val = sp(r.Pick(values))
		}
		in.Ops = append(in.Ops, o)
	}
	if r.Chance(1, 5) {
		in.Keys = append(in.Keys, "zz")
	}
	return in
}

func genStage(r *gen.Rand) input {
	in := input{D: genHier(r, 1, 4), V: genHier(r, 1, 4), U: genHier(r, 1, 4), Keys: append([]string{}, alphabet...)}
	if r.Chance(3, 4) {
		in.Locals = genMap(r, 1, 4)
	}
	return in
}

func genRmap(r *gen.Rand, num, den int, refNum int) map[string]tv {
	m := map[string]tv{}
	for _, k := range alphabet {
		if r.Chance(num, den) {
			if r.Chance(refNum, 10) {
				m[k] = tv{Ref: r.Pick(alphabet)}
			} else {
				m[k] = tv{Lit: r.Pick(values)}
			}
		}
	}
	return m
}

// outer: the variables of the iterators whose template the role is generated in (nearest last)
// genWmap: a defaults/vars block of a role, with the form each entry is written in (30% annotated
// with a value - the empty text as likely as in the plain form -, 5% annotated without a value,
// 5% something that is not a definition)
func genWmap(r *gen.Rand, num, den int, refNum int) map[string]tv {
	m := genRmap(r, num, den, refNum)
	for _, k := range sortedKeys(m) {
		e := m[k]
		switch x := r.Intn(20); {
		case x < 6:
			e.Form = "public"
		case x == 6:
			e.Form = "public_novalue"
		case x == 7:
			e.Form = "other"
		}
		m[k] = e
	}
	return m
}

func genRole(r *gen.Rand, depth, maxDepth int, budget *int, outer []string) *roleIn {
	*budget--
	ro := &roleIn{Defaults: genWmap(r, 1, 3, 2), Vars: genWmap(r, 1, 3, 2)}
	if r.Chance(1, 4) {
		ro.NameRef = r.Pick(alphabet)
	}
	if depth < maxDepth && *budget > 0 {
		n := 1
		if r.Chance(1, 3) {
			n = r.Range(2, 3)
		}
		for i := 0; i < n && *budget > 0; i++ {
			// whether the role is generated by an iterator is decided first, so that what is
			// generated inside the template knows the enclosing iterator variables
			var it *roleIn
			if r.Chance(3, 10) {
				it = &roleIn{IterVar: []string{"i", "j", "k"}[len(outer)%3]}
				if r.Chance(1, 3) {
					it.IterVar = r.Pick(alphabet) // the iterator variable collides with a key
				}
				switch {
				case len(outer) > 0 && len(outer) < 3 && r.Chance(3, 4):
					// nested: the range depends on the enclosing iteration, directly or through a var
					// that the role the iterator sits in defines per outer expansion
					ref := outer[r.Intn(len(outer))]
					if r.Chance(1, 3) {
						k := r.Pick(alphabet)
						ro.Vars[k] = tv{Ref: ref}
						ref = k
					}
					if r.Chance(1, 2) {
						it.IterBegin, it.IterEnd = &tv{Lit: "0"}, &tv{Ref: ref}
					} else {
						it.IterItems = []tv{{Ref: ref}, {Lit: r.Pick(values)}}[:r.Range(1, 2)]
					}
				case r.Chance(1, 5): // a range that refers to a key of the workflow
					it.IterItems = []tv{{Ref: r.Pick(alphabet)}, {Lit: r.Pick(values)}}[:r.Range(1, 2)]
				case r.Chance(1, 2):
					it.IterVals = [][]string{{"0", "1"}, {"1", "3"}, {"0", "2"}, {"2"}, {"1"}, {"1", "2", "3"}}[r.Intn(6)]
				default:
					it.IterVals = []string{r.Pick(values), r.Pick(values)}[:r.Range(1, 2)]
				}
			}
			sub := outer
			if it != nil {
				sub = append(append([]string{}, outer...), it.IterVar)
			}
			c := genRole(r, depth+1, maxDepth, budget, sub)
			if len(c.Children) > 0 && r.Chance(3, 10) {
				// include role: c becomes the root of a sub-workflow, the include role gets maps of
				// its own (dense: they are what the included subtree must see as the nearest ancestor's)
				c = &roleIn{NameRef: c.NameRef, Defaults: genWmap(r, 1, 2, 2), Vars: genWmap(r, 1, 2, 2),
					Sub: &roleIn{Defaults: c.Defaults, Vars: c.Vars, Children: c.Children}}
				if it == nil && r.Chance(1, 3) {
					it = &roleIn{IterVar: "i", IterVals: []string{r.Pick(values), r.Pick(values)}[:r.Range(1, 2)]}
				}
			}
			if it != nil {
				it.Tpl = c
				if c.NameRef == "" && r.Chance(1, 2) {
					c.NameRef = it.IterVar
				}
				*budget -= 1
				c = it
			}
			ro.Children = append(ro.Children, c)
		}
	}
	if len(ro.Children) == 0 {
		ro.Leaf = r.Pick([]string{"task", "call"})
	}
	return ro
}

func countRoles(root workflow.Role) (addrs [][]int) {
	var rec func(r workflow.Role, a []int)
	rec = func(r workflow.Role, a []int) {
		addrs = append(addrs, append([]int{}, a...))
		for i, c := range r.GetRoles() {
			rec(c, append(a, i))
		}
	}
	rec(root, []int{0})
	return
}

func genTree(r *gen.Rand, tmp string) input {
	in := input{Env: &lvl{D: genMap(r, 1, 3), V: genMap(r, 1, 4), U: genMap(r, 1, 4)}}
	if r.Chance(7, 10) { // mostly every key has an outermost default, so references resolve
		for _, k := range alphabet {
			if _, ok := in.Env.D[k]; !ok {
				in.Env.D[k] = r.Pick(values)
			}
		}
	}
	in.Backend = r.Chance(1, 4)
	budget := r.Range(3, 14)
	in.Tree = genRole(r, 1, r.Range(2, 6), &budget, nil)
	// runtime variables at roles of the loaded tree (addresses taken from a trial load)
	if root, _, err := loadTree(tmp, in); err == nil {
		addrs := countRoles(root)
		for k := r.Intn(6); k > 0; k-- {
			o := hop{Addr: addrs[r.Intn(len(addrs))], Key: r.Pick(alphabet)}
			if r.Chance(4, 5) {
				o.Val = sp(r.Pick(values))
			}
			in.Ops = append(in.Ops, o)
		}
	}
	return in
}

func genTask(r *gen.Rand) input {
	n := r.Range(3, 7) // task role, 1..5 aggregators, environment
	in := input{Keys: append(append([]string{}, alphabet...), "task_id", "zz")}
	for i := 0; i < n; i++ {
		in.Path = append(in.Path, lvl{D: genMap(r, 1, 4), V: genMap(r, 1, 5), U: genMap(r, 1, 6)})
	}
	if r.Chance(1, 6) {
		in.Path[r.Intn(n)].V["task_id"] = "w"
	}
	in.CD = genRmap(r, 1, 2, 2)
	in.CV = genRmap(r, 1, 2, 2)
	if r.Chance(1, 6) {
		in.CV["task_id"] = tv{Lit: "c"}
	}
	if r.Chance(1, 3) { // sparse workflow: the class maps decide
		for i := range in.Path {
			in.Path[i] = lvl{D: genMap(r, 1, 12), V: smap{}, U: smap{}}
		}
	}
	return in
}

// corpus: fixed cases that always run first
func corpus() []struct {
	kind string
	in   input
} {
	e := smap{}
	return []struct {
		kind string
		in   input
	}{
		// regression case of fix C14-a (former witness): key only in the class defaults and the class vars
		{"task", input{Path: []lvl{{e, e, e}, {e, e, e}, {e, e, e}}, CD: map[string]tv{"a": {Lit: "x"}}, CV: map[string]tv{"a": {Lit: "y"}}, Keys: []string{"a"}}},
		// empty value at the nearest level hides a non-empty ancestor value, in every kind
		{"task", input{Path: []lvl{{smap{"a": ""}, e, e}, {smap{"a": "x"}, e, e}, {smap{"a": "y", "b": "z"}, e, e}}, CD: map[string]tv{"a": {Lit: "y"}}, CV: map[string]tv{}, Keys: []string{"a", "b"}}},
		{"gera", input{H: []smap{{"a": ""}, {"a": "x", "b": "y"}, {"b": "", "c": "z"}}, Other: []smap{{"c": ""}, {"d": "1"}}, Keys: []string{"a", "b", "c", "d"}}},
		{"call", input{Path: []lvl{{smap{"a": "x"}, e, e}, {e, smap{"a": ""}, e}, {e, e, smap{"b": ""}}}, Keys: []string{"a", "b", "c", "environment_id"}}},
		{"stage", input{Locals: smap{"d": ""}, D: []smap{{"a": "x"}, {"a": "y", "d": "z"}}, V: []smap{{"b": "x"}, {"b": ""}}, U: []smap{{"c": ""}, {"c": "y"}}, Keys: []string{"a", "b", "c", "d"}}},
		{"tree", input{Env: &lvl{D: smap{"a": "x", "b": "y"}, V: smap{"c": ""}, U: smap{"d": "1"}},
			Tree: &roleIn{Defaults: map[string]tv{"a": {Lit: ""}, "d": {Ref: "a"}}, Vars: map[string]tv{"b": {Ref: "a"}},
				Children: []*roleIn{{Tpl: &roleIn{NameRef: "i", Vars: map[string]tv{"c": {Ref: "i"}}, Leaf: "task"}, IterVar: "i", IterVals: []string{"0", "1"}},
					{Leaf: "call", Defaults: map[string]tv{"c": {Lit: "z"}}}}},
			Ops: []hop{{Addr: []int{0, 0}, Key: "c", Val: sp("")}, {Addr: []int{0}, Key: "b", Val: sp("1")}}}},
		// include role with defaults and vars of its own, under a root and an environment that define
		// the same keys: the included subtree sees the include role's as the nearest ancestor's
		{"tree", input{Env: &lvl{D: smap{"a": "z", "b": "z", "c": "z", "d": "z"}, V: smap{"b": "1"}, U: e},
			Tree: &roleIn{Defaults: map[string]tv{"a": {Lit: "y"}, "c": {Lit: "y"}}, Vars: map[string]tv{"b": {Lit: "y"}},
				Children: []*roleIn{{Defaults: map[string]tv{"a": {Lit: "x"}}, Vars: map[string]tv{"b": {Lit: "x"}, "d": {Lit: ""}},
					Sub: &roleIn{Defaults: map[string]tv{"c": {Lit: "x"}},
						Children: []*roleIn{{Leaf: "task", Vars: map[string]tv{"c": {Ref: "a"}}},
							{Children: []*roleIn{{Leaf: "call", Defaults: map[string]tv{"a": {Ref: "b"}}}}}}}}}}}},
		// iterated include role: the iterator variable collides with a key of the root and of the
		// environment; the local and the per-value var must be what each included subtree sees;
		// a runtime variable set on a generated include role lands on the level it shows as its own
		{"tree", input{Env: &lvl{D: smap{"a": "z", "b": "z"}, V: smap{"a": "z"}, U: e},
			Tree: &roleIn{Defaults: map[string]tv{"b": {Lit: "y"}}, Vars: map[string]tv{"a": {Lit: "y"}},
				Children: []*roleIn{{IterVar: "a", IterVals: []string{"0", "1"},
					Tpl: &roleIn{NameRef: "a", Vars: map[string]tv{"b": {Ref: "a"}},
						Sub: &roleIn{Vars: map[string]tv{"c": {Ref: "b"}},
							Children: []*roleIn{{Leaf: "task", Defaults: map[string]tv{"d": {Ref: "a"}}}}}}}}},
			Ops: []hop{{Addr: []int{0, 1}, Key: "d", Val: sp("1")}}}},
		// nested iterators: the inner bound is a var that each role generated by the outer iterator
		// defines from the outer variable (outer 1 and 3 -> 2 and 4 inner roles), a second inner
		// iterator lists the outer variable itself; the root and the environment define the same names;
		// a runtime variable set after loading on the first outer role does not change what was generated
		{"tree", input{Env: &lvl{D: smap{"a": "0", "b": "2"}, V: e, U: e},
			Tree: &roleIn{Defaults: map[string]tv{"a": {Lit: "0"}}, Vars: map[string]tv{"i": {Lit: "2"}},
				Children: []*roleIn{{IterVar: "i", IterItems: []tv{{Lit: "1"}, {Lit: "3"}},
					Tpl: &roleIn{NameRef: "i", Vars: map[string]tv{"a": {Ref: "i"}},
						Children: []*roleIn{
							{IterVar: "j", IterBegin: &tv{Lit: "0"}, IterEnd: &tv{Ref: "a"},
								Tpl: &roleIn{NameRef: "j", Vars: map[string]tv{"c": {Ref: "a"}}, Leaf: "call"}},
							{IterVar: "b", IterItems: []tv{{Ref: "i"}, {Lit: "x"}},
								Tpl: &roleIn{Leaf: "task", Defaults: map[string]tv{"d": {Ref: "b"}}}}}}}}},
			Ops: []hop{{Addr: []int{0, 0}, Key: "a", Val: sp("1")}}}},
		// the forms a definition is written in: an EMPTY text in the annotated !public form (vars and
		// defaults) must hide the non-empty values of the same role's defaults, of the ancestors and
		// of the environment, like the plain empty scalar next to it; a !public block without a value;
		// an untagged mapping, which is not a definition
		{"tree", input{Env: &lvl{D: smap{"a": "z", "b": "z", "c": "z", "d": "z"}, V: smap{"a": "1"}, U: e},
			Tree: &roleIn{Defaults: map[string]tv{"a": {Lit: "y", Form: "public"}, "b": {Lit: "y"}, "c": {Lit: "y"}, "d": {Lit: "y", Form: "other"}},
				Vars: map[string]tv{"b": {Lit: "y", Form: "public"}},
				Children: []*roleIn{{Defaults: map[string]tv{"a": {Lit: "x"}, "c": {Lit: "", Form: "public"}},
					Vars: map[string]tv{"a": {Lit: "", Form: "public"}, "b": {Lit: ""}, "d": {Form: "public_novalue"}},
					Children: []*roleIn{{Leaf: "task", Defaults: map[string]tv{"b": {Lit: "", Form: "public"}}, Vars: map[string]tv{"c": {Ref: "a", Form: "public"}}}}}}}}},
	}
}

func runCase(tmp, kind string, in input) gen.Case {
	switch kind {
	case "gera":
		return caseGera(in)
	case "flatstack":
		return caseFlatStack(in)
	case "stage":
		return caseStage(in)
	case "tree":
		return caseTree(tmp, in)
	case "task":
		return caseTask(tmp, in)
	case "call":
		return caseCall(tmp, in)
	}
	panic("unknown kind " + kind)
}

func main() {
	logrus.SetOutput(io.Discard)
	logrus.SetLevel(logrus.PanicLevel)
	viper.Set("config_endpoint", "mock://")
	_, dummyRepo, _ = repos.NewRepo("/home/user/git/ControlWorkflows", "", "/var/lib/o2/aliecs/repos")
	if len(os.Args) >= 3 && os.Args[1] == "-gen" {
		genStages(os.Args[2])
		return
	}
	o := gen.ParseFlags()
	tmp, err := os.MkdirTemp(o.Out, "backend")
	if err != nil {
		panic(err)
	}
	defer os.RemoveAll(tmp)

	var cases []gen.Case
	if o.Replay != "" {
		ins, kinds, err := gen.LoadReplay(o.Replay)
		if err != nil {
			panic(err)
		}
		for i, raw := range ins {
			var in input
			if err := json.Unmarshal(raw, &in); err != nil {
				panic(err)
			}
			cases = append(cases, runCase(tmp, kinds[i], in))
		}
	} else {
		for _, c := range corpus() {
			cases = append(cases, runCase(tmp, c.kind, c.in))
		}
		r := gen.NewRand(o.Seed)
		rG, rF, rS, rT, rK := r.Fork(), r.Fork(), r.Fork(), r.Fork(), r.Fork()
		rC := r.Fork()
		nG, nF, nS, nK, nC := o.N*20/100, o.N*5/100, o.N*15/100, o.N*20/100, o.N*8/100
		nT := o.N - nG - nF - nS - nK - nC
		for i := 0; i < nG; i++ {
			cases = append(cases, caseGera(genGera(rG)))
		}
		for i := 0; i < nF; i++ {
			n := rF.Range(1, 4)
			in := input{}
			for j := 0; j < n; j++ {
				in.Hs = append(in.Hs, genHier(rF, 1, 3))
			}
			cases = append(cases, caseFlatStack(in))
		}
		for i := 0; i < nS; i++ {
			cases = append(cases, caseStage(genStage(rS)))
		}
		for i := 0; i < nT; i++ {
			cases = append(cases, caseTree(tmp, genTree(rT, tmp)))
		}
		for i := 0; i < nK; i++ {
			cases = append(cases, caseTask(tmp, genTask(rK)))
		}
		for i := 0; i < nC; i++ {
			in := genTask(rC)
			in.CD, in.CV = nil, nil
			in.Keys = append(append([]string{}, alphabet...), "zz", "environment_id")
			for j := range in.Path {
				delete(in.Path[j].V, "task_id")
			}
			if rC.Chance(1, 5) {
				in.Path[rC.Intn(len(in.Path))].U["environment_id"] = "w"
			}
			cases = append(cases, caseCall(tmp, in))
		}
	}
	if err := gen.WriteCases(o, "C14", "From Verif Require Import VarStack.", "c14_case", "report14", cases, nil); err != nil {
		panic(err)
	}
}
