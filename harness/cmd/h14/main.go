package main

import (
	"fmt"
	"sort"

	"github.com/AliceO2Group/Control/common"
	"github.com/AliceO2Group/Control/common/controlmode"
	"github.com/AliceO2Group/Control/common/event"
	"github.com/AliceO2Group/Control/common/gera"
	"github.com/AliceO2Group/Control/common/utils/uid"
	"github.com/AliceO2Group/Control/core/repos"
	"github.com/AliceO2Group/Control/core/task"
	"github.com/AliceO2Group/Control/core/task/channel"
	"github.com/AliceO2Group/Control/core/task/sm"
	"github.com/AliceO2Group/Control/core/task/taskclass"
	"github.com/AliceO2Group/Control/core/workflow"
	"github.com/spf13/viper"
)

type parentRole interface {
	UpdateStatus(task.Status)
	UpdateState(sm.State)
	GetPath() string
	GetTaskClass() string
	GetTaskTraits() task.Traits
	SetTask(*task.Task)
	GetEnvironmentId() uid.ID
	CollectOutboundChannels() []channel.Outbound
	GetDefaults() gera.Map[string, string]
	GetVars() gera.Map[string, string]
	GetUserVars() gera.Map[string, string]
	ConsolidatedVarStack() (varStack map[string]string, err error)
	CollectInboundChannels() []channel.Inbound
	SendEvent(event.Event)
	GetName() string
}

func dump(m map[string]string) string {
	ks := []string{}
	for k := range m {
		ks = append(ks, k)
	}
	sort.Strings(ks)
	s := ""
	for _, k := range ks {
		s += fmt.Sprintf("%s=%q ", k, m[k])
	}
	return s
}

func walk(r workflow.Role, ind string) {
	if false {
		fmt.Println(ind + "(iterator)")
	} else {
		cvs, err := r.ConsolidatedVarStack()
		d, v, u, _ := r.ConsolidatedVarMaps()
		fmt.Printf("%s%s path=%s stack{%s} D{%s} V{%s} U{%s} err=%v ownD{%s} ownV{%s}\n", ind, r.GetName(), r.GetPath(), dump(cvs), dump(d), dump(v), dump(u), err, dump(r.GetDefaults().Raw()), dump(r.GetVars().Raw()))
	}
	for _, c := range r.GetRoles() {
		walk(c, ind+"  ")
	}
}

func main() {
	viper.Set("config_endpoint", "mock://")
	doc := `
name: root
defaults:
  a: "rootA"
  b: ""
  e: "{{ g }}"
vars:
  c: "{{ a }}"
roles:
  - name: "agg-{{ c }}"
    defaults:
      a: ""
      d: "{{ a }}"
    vars:
      b: "{{ a }}"
    roles:
      - name: "t{{ it }}"
        for:
          begin: 0
          end: 1
          var: it
        vars:
          a: "{{ it }}"
          it: "own"
        task:
          load: cls
      - name: call1
        call:
          func: foo()
          trigger: before_CONFIGURE
`
	gd := gera.MakeMapWithMap(map[string]string{"g": "globalD", "a": "gA"})
	gv := gera.MakeMapWithMap(map[string]string{})
	gu := gera.MakeMapWithMap(map[string]string{"u": "user", "it": "userit"})
	pa := workflow.NewParentAdapter(func() uid.ID { return uid.NilID() }, func() uint32 { return 0 },
		func() gera.Map[string, string] { return gd }, func() gera.Map[string, string] { return gv }, func() gera.Map[string, string] { return gu },
		func(event.Event) {})
	_, repo, _ := repos.NewRepo("/home/user/git/ControlWorkflows", "", "/var/lib/o2/aliecs/repos")
	root, err := workflow.VerifC14LoadYAML([]byte(doc), pa, &repo, map[string]string{})
	fmt.Println("err", err)
	if err != nil {
		return
	}
	walk(root, "")
	// task level
	var tr workflow.Role = root.GetRoles()[0].GetRoles()[0]
	pr := tr.(parentRole)
	val := "echo"
	cls := &taskclass.Class{
		Identifier: taskclass.Id{RepoIdentifier: "r", Hash: "h", Name: "cls"},
		Defaults:   gera.MakeMapWithMap(map[string]string{"k": "classDefault", "z": "{{ a }}"}),
		Vars:       gera.MakeMapWithMap(map[string]string{"k": "classVar", "y": "{{ z }}"}),
		Command:    &common.CommandInfo{Value: &val, Arguments: []string{"{{ k }}", "{{ a }}", "{{ y }}", "{{ task_name }}"}},
		Properties: gera.MakeMapWithMap(map[string]string{"pk": "{{ k }}", "pa": "{{ a }}", "py": "{{ y }}"}),
	}
	cls.Control.Mode = controlmode.DIRECT
	t := task.VerifC14NewTask("cls#1", "1", "host", cls, pr)
	err = t.BuildTaskCommand(pr)
	fmt.Println("cmd err", err, t.GetTaskCommandInfo().Arguments)
	pm, err := t.BuildPropertyMap(nil)
	fmt.Println("prop err", err, dump(pm))
}
