// h03: correspondence harness for C03 (failure of a critical task drives a live environment to
// ERROR; the same failure of a non-critical task changes nothing).  Drives the real core in-process
// (internal/simcore through internal/c0203): environments are created through
// envman.CreateEnvironment, commanded through RpcServer.ControlEnvironment, and tasks are made to
// fail on their own - terminal Mesos status (TASK_FAILED / TASK_LOST / TASK_KILLED), executor lost,
// agent lost (Event_FAILURE), DeviceEvent TASK_INTERNAL_ERROR - at three kinds of instants: while
// the environment is idle, inside a before_<EVENT> hook of a running request (verification plugin
// probe, the transition mutex is held), and inside an after_CONFIGURE hook of the creation (before
// subscribeToWfState).  Observed per step: environment state, published states, tasks that got a
// transition command, run_end_time_ms, run events, role state/status of every task.
// One core per worker process, cases dealt round-robin (as h02).
package main

import (
	"context"
	"encoding/json"
	"flag"
	"fmt"
	"os"
	"os/exec"
	"path/filepath"
	"sort"
	"strings"
	"sync"
	"time"

	"github.com/AliceO2Group/Control/common/event/topic"
	evpb "github.com/AliceO2Group/Control/common/protos"
	pb "github.com/AliceO2Group/Control/core/protos"
	"github.com/spf13/viper"
	"github.com/AliceO2Group/Control/core/the"
	mesos "github.com/mesos/mesos-go/api/v1/lib"

	"verif/harness/internal/c0203"
	"verif/harness/internal/gen"
	"verif/harness/internal/simcore"
)

// ---------------------------------------------------------------- case description

type Fault struct {
	Kind string `json:"kind"` // failed | lost | killed | error | executor | agent | internal
	V    int    `json:"v"`    // task position (agent: the task whose agent is lost)
	L    *Label `json:"l,omitempty"`
}

// Label: how the report of the failure is labelled and routed (nil: the simulated executor's own
// update: REASON_COMMAND_EXECUTOR_FAILED, SOURCE_EXECUTOR, UUID, all ids and labels)
type Label struct {
	Reason string `json:"reason,omitempty"` // "" default | none | reconciliation | agent_removed | executor_terminated | mem_limit | gc_error
	Src    string `json:"src,omitempty"`    // "" executor | master | agent | none
	Path   string `json:"path,omitempty"`   // "" plain update | reconnect: the task dies unreported, the core is
	// disconnected and subscribes again, the death arrives as the master's answer to the implicit reconciliation
	Bare   bool `json:"bare,omitempty"`   // no agent id, executor id, labels (executor FAILURE: executor id only)
	NoUUID bool `json:"nouuid,omitempty"` // not to be acknowledged
}

type Op struct {
	Kind string   `json:"kind"`         // cmd | fault | cmdfault | race
	Late string   `json:"late,omitempty"` // race: the state the overtaking late reply announces
	// refresh: benign status traffic a real master can send - TASK_RUNNING for every live task of the
	// environment, as the answers to the implicit reconciliation after a reconnection (how = reconnect)
	// or as plain reconciliation updates (how = update), with optional ids left out
	How  string `json:"how,omitempty"`
	Omit string `json:"omit,omitempty"` // none | executor | agent | both
	Ev   string   `json:"ev,omitempty"` // CONFIGURE | START | STOP | RESET
	Oc   []string `json:"oc,omitempty"` // ack | errsrc | errerr | sendfail, by task position
	F    *Fault   `json:"f,omitempty"`
}

type Input struct {
	Tasks  []c0203.Task `json:"tasks"`
	Groups []int        `json:"groups"` // 0: directly below the root; g>0: inside aggregator role "g<g>"
	Early  *Fault       `json:"early,omitempty"`
	// Claimed: the tasks are not launched for this environment but claimed from an earlier one
	// (reuseUnlockedTasks=true: environment A deploys them, is RESET and destroyed keeping its tasks,
	// the environment of the case claims them); every message of such a task (status labels, device
	// event labels) still names environment A, as the real executor stamps them at launch
	Claimed bool `json:"claimed,omitempty"`
	// Overlap: concurrent roster traffic of ANOTHER environment: environment A (same tasks) is torn
	// down, its first Mesos KILL call is held in the simulated master (and then answered: "kill-ok",
	// or refused: "kill-fails") while the environment of the case is created and deployed from start
	// to end; then the call returns.  Every task of the live environment must still be in the roster.
	Overlap string `json:"overlap,omitempty"`
	Ops    []Op         `json:"ops"`
}

type StepObs struct {
	State    int      `json:"state"`
	Hang     bool     `json:"hang"`
	Reported []int    `json:"reported"`
	Cmded    []int    `json:"cmded"`
	REnd     int      `json:"rend"`
	Rostered bool     `json:"rostered"` // every task of the environment is in the core's roster (probe)
	RunEvs   []int    `json:"runevs"`
	Tasks    [][2]int `json:"tasks"`
	Victims  []int    `json:"victims"` // computed by the harness: tasks the fault of this step hits
	IsFault  bool     `json:"is_fault"`
	Claims   int      `json:"claims,omitempty"` // first step: tasks of this environment that were claimed
	Raced    bool     `json:"raced,omitempty"` // race: the first update was held at the hand-over
	ErrText  string   `json:"err_text,omitempty"` // not compared
}

type job struct {
	Idx  int    `json:"idx"`
	Kind string `json:"kind"`
	In   Input  `json:"in"`
}

type result struct {
	Idx int       `json:"idx"`
	Obs []StepObs `json:"obs"`
}

// ---------------------------------------------------------------- workflow layout

// top-level children in YAML order: an ungrouped task, or a group at the place of its first member
type layout struct {
	top   []int   // >=0: task position; <0: -(group id)
	inGrp [][]int // group id -> members in order
	paths [][]int // task position -> path in the role tree
}

func mkLayout(in Input) layout {
	var l layout
	maxg := 0
	for _, g := range in.Groups {
		if g > maxg {
			maxg = g
		}
	}
	l.inGrp = make([][]int, maxg+1)
	l.paths = make([][]int, len(in.Tasks))
	grpAt := map[int]int{}
	for i := range in.Tasks {
		g := 0
		if i < len(in.Groups) {
			g = in.Groups[i]
		}
		if g == 0 {
			l.paths[i] = []int{len(l.top)}
			l.top = append(l.top, i)
			continue
		}
		if _, ok := grpAt[g]; !ok {
			grpAt[g] = len(l.top)
			l.top = append(l.top, -g)
		}
		l.paths[i] = []int{grpAt[g], len(l.inGrp[g])}
		l.inGrp[g] = append(l.inGrp[g], i)
	}
	return l
}

func groupOf(in Input, i int) int {
	if i < len(in.Groups) {
		return in.Groups[i]
	}
	return 0
}

func yamlFor(in Input) func(name string, tasks []c0203.Task, launch []string, calls []c0203.Call, dt string) string {
	return func(name string, tasks []c0203.Task, launch []string, calls []c0203.Call, dt string) string {
		l := mkLayout(in)
		var b strings.Builder
		fmt.Fprintf(&b, "name: %s\ndefaults:\n  deploy_timeout: %s\nroles:\n", name, dt)
		for _, c := range l.top {
			if c >= 0 {
				b.WriteString(c0203.TaskYAML(c, tasks[c], "  "))
				continue
			}
			fmt.Fprintf(&b, "  - name: \"g%d\"\n    roles:\n", -c)
			for _, m := range l.inGrp[-c] {
				b.WriteString(c0203.TaskYAML(m, tasks[m], "      "))
			}
		}
		for k, c := range calls {
			b.WriteString(c0203.CallYAML(k, c, "  "))
		}
		return b.String()
	}
}

func pathFor(in Input) func(name string, i int) string {
	return func(name string, i int) string {
		if g := groupOf(in, i); g > 0 {
			return fmt.Sprintf("%s.g%d.t%d", name, g, i)
		}
		return fmt.Sprintf("%s.t%d", name, i)
	}
}

// ---------------------------------------------------------------- holding a role update at the hand-over

// roleGate is installed as the event writer of the role topic: taskRole.updateState publishes the
// role's new state (Ev_RoleEvent) after it merged the value into its own cache and before it hands
// it to its parent.  When armed for a role path it holds the goroutine that publishes "ERROR" for
// that role until released, so that another update of the same task can run to its end in between.
type roleGate struct {
	mu      sync.Mutex
	path    string
	reached chan struct{}
	release chan struct{}
}

func (g *roleGate) arm(path string) {
	g.mu.Lock()
	g.path, g.reached, g.release = path, make(chan struct{}), make(chan struct{})
	g.mu.Unlock()
}

func (g *roleGate) open() {
	g.mu.Lock()
	if g.release != nil {
		close(g.release)
	}
	g.path, g.release = "", nil
	g.mu.Unlock()
}

func (g *roleGate) waitReached(d time.Duration) bool {
	g.mu.Lock()
	ch := g.reached
	g.mu.Unlock()
	if ch == nil {
		return false
	}
	select {
	case <-ch:
		return true
	case <-time.After(d):
		return false
	}
}

func (g *roleGate) WriteEvent(e interface{}) {
	ev, ok := e.(*evpb.Ev_RoleEvent)
	if !ok || ev.State != "ERROR" {
		return
	}
	g.mu.Lock()
	hit := g.path != "" && ev.RolePath == g.path && g.release != nil
	var reached, release chan struct{}
	if hit {
		reached, release = g.reached, g.release
		g.path = "" // once
	}
	g.mu.Unlock()
	if !hit {
		return
	}
	close(reached)
	select {
	case <-release:
	case <-time.After(5 * time.Second):
	}
}
func (g *roleGate) WriteEventWithTimestamp(e interface{}, _ time.Time) { g.WriteEvent(e) }
func (g *roleGate) Close()                                             {}

var gate = &roleGate{}

// ---------------------------------------------------------------- acting between the cleanup and the deployment of a creation

// envTap wraps the environment-topic writer of c0203: CreateEnvironment publishes "workflow loaded"
// (step after_CREATE) after its pre-deployment cleanup (which kills every unlocked task) and before
// DEPLOY.  When armed, the callback runs inside that write - the only window in which tasks released
// by another environment are still there to be claimed (reuseUnlockedTasks).
type envTap struct {
	inner interface {
		WriteEvent(e interface{})
		WriteEventWithTimestamp(e interface{}, t time.Time)
		Close()
	}
	mu sync.Mutex
	f  func()
}

func (t *envTap) arm(f func()) { t.mu.Lock(); t.f = f; t.mu.Unlock() }

func (t *envTap) WriteEvent(e interface{}) {
	t.inner.WriteEvent(e)
	if ev, ok := e.(*evpb.Ev_EnvironmentEvent); ok && ev.Transition == "CREATE" && ev.TransitionStep == "after_CREATE" {
		t.mu.Lock()
		f := t.f
		t.f = nil
		t.mu.Unlock()
		if f != nil {
			f()
		}
	}
}
func (t *envTap) WriteEventWithTimestamp(e interface{}, ts time.Time) { t.inner.WriteEventWithTimestamp(e, ts) }
func (t *envTap) Close()                                              {}

var tap *envTap

// ---------------------------------------------------------------- running one case

var mesosState = map[string]mesos.TaskState{"failed": mesos.TASK_FAILED, "lost": mesos.TASK_LOST, "killed": mesos.TASK_KILLED, "error": mesos.TASK_ERROR}
var kindCode = map[string]int{"failed": 1, "lost": 2, "killed": 3, "executor": 4, "agent": 5, "internal": 6, "error": 7}
var reasonNames = []string{"", "none", "reconciliation", "agent_removed", "executor_terminated", "mem_limit", "gc_error"}
var srcNames = []string{"", "master", "agent", "none"}

func reasonOf(name string) *mesos.TaskStatus_Reason {
	var r mesos.TaskStatus_Reason
	switch name {
	case "none":
		return nil
	case "reconciliation":
		r = mesos.REASON_RECONCILIATION
	case "agent_removed":
		r = mesos.REASON_AGENT_REMOVED
	case "executor_terminated":
		r = mesos.REASON_EXECUTOR_TERMINATED
	case "mem_limit":
		r = mesos.REASON_CONTAINER_LIMITATION_MEMORY
	case "gc_error":
		r = mesos.REASON_GC_ERROR
	default:
		r = mesos.REASON_COMMAND_EXECUTOR_FAILED
	}
	return &r
}

func sourceOf(name string) *mesos.TaskStatus_Source {
	var x mesos.TaskStatus_Source
	switch name {
	case "none":
		return nil
	case "master":
		x = mesos.SOURCE_MASTER
	case "agent":
		x = mesos.SOURCE_AGENT
	default:
		x = mesos.SOURCE_EXECUTOR
	}
	return &x
}

func indexOf(xs []string, x string) int {
	for i, y := range xs {
		if x == y {
			return i
		}
	}
	return 0
}

// labelCode: kind + 10*reason + 100*source + 1000*reconnect path + 2000*bare + 4000*no uuid (for the record
// in the case term; the model does not look at it: the label must not matter)
func labelCode(f Fault) int {
	c := kindCode[f.Kind]
	if f.L != nil {
		c += 10*indexOf(reasonNames, f.L.Reason) + 100*indexOf(srcNames, f.L.Src)
		if f.L.Path == "reconnect" {
			c += 1000
		}
		if f.L.Bare {
			c += 2000
		}
		if f.L.NoUUID {
			c += 4000
		}
	}
	return c
}
var runEvCode = map[string]int{"START_ACTIVITY/STARTED": 1, "START_ACTIVITY/DONE_OK": 2, "START_ACTIVITY/DONE_ERROR": 3,
	"STOP_ACTIVITY/STARTED": 4, "STOP_ACTIVITY/DONE_OK": 5, "STOP_ACTIVITY/DONE_ERROR": 6, "GO_ERROR/STARTED": 7, "GO_ERROR/DONE_OK": 8}
var trigger = map[string]string{"START": "before_START_ACTIVITY", "STOP": "before_STOP_ACTIVITY", "RESET": "before_RESET", "CONFIGURE": "before_CONFIGURE"}
var evNames = []string{"START", "STOP", "RESET", "CONFIGURE"}

// bookkeeping of what the core still associates with a task (decides whom a fault hits)
// what the history of the case says the core must still associate with a task - kept by the harness
// from the faults it injected, NOT read from the core's roster (a core that forgets the executor /
// agent of a task, or that it owns it, must not get to choose the victims of the next fault)
type taskBook struct {
	simTerminal []bool // the simulated task already sent a terminal status
	execGone    []bool // its executor was reported lost (HandleExecutorFailed clears the executor id)
	agentGone   []bool // its agent was reported lost (HandleAgentFailed clears the agent id)
}

type caseRun struct {
	w     *c0203.World
	in    Input
	name  string
	env   *c0203.Env
	book  taskBook
	runAt int // run events already reported

	prevView  [][2]int // task view / environment state of the previous observation
	prevState int
}

func (c *caseRun) taskId(i int) string {
	if c.env != nil && i < len(c.env.TaskIds) && c.env.TaskIds[i] != "" {
		return c.env.TaskIds[i]
	}
	return c.w.RosterTaskId(pathFor(c.in)(c.name, i))
}

// goneWith: the tasks of a lost executor / agent are gone; the simulated master must not report them
// as running in a later reconciliation
func (c *caseRun) goneWith(vs []int) {
	for _, i := range vs {
		c.w.Sim.DieUnreported(c.taskId(i))
		c.book.simTerminal[i] = true
	}
}

// inject performs the fault and returns the task positions it hits in the core (the victims):
// whom the core associates with the failed executor / agent is read from its roster beforehand
// (one executor per accepted offer: the tasks of an environment on one host share it)
func (c *caseRun) inject(f Fault) []int {
	n := len(c.in.Tasks)
	if f.V < 0 || f.V >= n {
		return []int{}
	}
	tid := c.taskId(f.V)
	vs := []int{}
	switch f.Kind {
	case "failed", "lost", "killed", "error":
		// an owned task stays locked until its executor or agent is reported lost
		if !c.book.simTerminal[f.V] && !c.book.execGone[f.V] && !c.book.agentGone[f.V] {
			vs = []int{f.V}
		}
		switch {
		case c.book.simTerminal[f.V]:
			// already reported dead: a simulated task reports its end once
		case f.L == nil:
			c.w.Sim.FailTask(tid, mesosState[f.Kind])
		case f.L.Path == "reconnect":
			// the task dies while the core is cut off; after the new subscription the master answers
			// the implicit reconciliation with the terminal state (no UUID: nothing to acknowledge)
			c.w.Sim.DieUnreported(tid)
			from := len(c.w.Sim.CallsSnapshot())
			c.w.Sim.Reconnect()
			// (the controller rations its registrations: 1 s, 2 s, 4 s .. 15 s between successive ones)
			waitFor(45*time.Second, func() bool {
				sub, rec := false, false
				for _, k := range c.w.Sim.CallsSnapshot()[from:] {
					sub = sub || k.Type == "SUBSCRIBE"
					rec = rec || (sub && k.Type == "RECONCILE")
				}
				return rec
			})
			time.Sleep(5 * time.Millisecond)
			c.w.Sim.SendStatus(tid, mesosState[f.Kind], simcore.StatusLabel{Reason: reasonOf("reconciliation"), Source: sourceOf("master"), Bare: f.L.Bare})
		default:
			c.w.Sim.SendStatus(tid, mesosState[f.Kind], simcore.StatusLabel{Reason: reasonOf(f.L.Reason), Source: sourceOf(f.L.Src), UUID: !f.L.NoUUID, Bare: f.L.Bare})
		}
		c.book.simTerminal[f.V] = true
	case "executor":
		// the tasks the simulated master launched under the same executor (one executor per accepted offer)
		ex := c.w.ExecutorOf(tid)
		for i := 0; i < n; i++ {
			if ex != "" && c.w.ExecutorOf(c.taskId(i)) == ex && !c.book.execGone[i] {
				vs = append(vs, i)
				c.book.execGone[i] = true
			}
		}
		if f.L != nil && f.L.Bare {
			c.w.Sim.FailExecutorBare(ex)
		} else {
			c.w.Sim.FailExecutor(c.w.AgentOf(tid), ex)
		}
		c.goneWith(vs)
	case "agent":
		ag := c.w.AgentOf(tid)
		for i := 0; i < n; i++ {
			if ag != "" && c.w.AgentOf(c.taskId(i)) == ag && !c.book.agentGone[i] {
				vs = append(vs, i)
				c.book.agentGone[i] = true
			}
		}
		c.w.Sim.FailAgent(ag)
		c.goneWith(vs)
	case "internal":
		vs = []int{f.V}
		c.w.Sim.DeviceEvent(tid, "TASK_INTERNAL_ERROR", nil)
	}
	sort.Ints(vs)
	return vs
}

// quiesce waits (bounded) until the core's view of the case's tasks - task state / status in the
// roster and role state / status in the tree - has not changed for 15 ms: the state updates of the
// replies to a command run in goroutines of their own (go m.updateTaskState), after the request
// has returned, and a late one would overwrite the ERROR of a fault injected meanwhile (a schedule
// of its own, left to the model: the pending updates of [wrun] run in any order)
func (c *caseRun) quiesce() {
	snap := func() string {
		var b strings.Builder
		want := map[string]bool{}
		for i := range c.in.Tasks {
			want[pathFor(c.in)(c.name, i)] = true
		}
		ros := c.w.Sim.Taskman.VerifRoster()
		sort.Slice(ros, func(a, b int) bool { return ros[a].RolePath < ros[b].RolePath })
		for _, t := range ros {
			if want[t.RolePath] {
				fmt.Fprintf(&b, "%s=%s/%s;", t.RolePath, t.State, t.Status)
			}
		}
		if c.env != nil {
			fmt.Fprint(&b, c.env.RoleView())
		}
		return b.String()
	}
	last, since := snap(), time.Now()
	end := time.Now().Add(500 * time.Millisecond)
	for time.Now().Before(end) {
		time.Sleep(3 * time.Millisecond)
		cur := snap()
		if cur != last {
			last, since = cur, time.Now()
		} else if time.Since(since) >= 15*time.Millisecond {
			return
		}
	}
}

// settleFault waits (bounded) until the core has processed the fault: the victims' tasks are
// ERROR / INACTIVE in the roster (internal error: a few milliseconds), plus the role updates
func (c *caseRun) settleFault(f Fault, vs []int) {
	if f.Kind == "internal" {
		time.Sleep(15 * time.Millisecond)
		return
	}
	want := map[string]bool{}
	for _, i := range vs {
		want[c.taskId(i)] = true
	}
	waitFor(3*time.Second, func() bool {
		seen := 0
		for _, t := range c.w.Sim.Taskman.VerifRoster() {
			if want[t.TaskId] {
				if t.State != "ERROR" || t.Status != "INACTIVE" {
					return false
				}
				seen++
			}
		}
		return seen == len(want)
	})
	time.Sleep(8 * time.Millisecond)
}

// settleObs is passed before every sampling point: everything observed is written by the core
// asynchronously (go m.updateTaskState / updateTaskStatus per reply, callbacks of the transition
// still running after the state changed, the watcher's STOP command after its GO_ERROR).  It waits
// (a) until the role state of every task in `want` (derived from the INPUT: scripted outcome of an
// acknowledged command, victims of a fault - never from the model) is reached, since the core gets
// there monotonically, (b) until no transition is in progress (unless the request hangs), (c) until
// the whole sampled view - roster, role view, published states, commanded tasks, run events,
// run_end variable, environment state - has been the same for 8 polls in a row.  Each part is
// bounded (4 s); after that whatever is there is sampled, so a real violation is still reported.
func (c *caseRun) settleObs(want map[int]int, hang bool) {
	end := time.Now().Add(4 * time.Second)
	if len(want) > 0 {
		for time.Now().Before(end) {
			v := c.env.RoleView()
			ok := true
			for i, st := range want {
				if i >= len(v) || v[i][0] != st {
					ok = false
				}
			}
			if ok {
				break
			}
			time.Sleep(3 * time.Millisecond)
		}
	}
	if !hang && c.env.E != nil {
		for time.Now().Before(end) && c.env.E.CurrentTransition() != "" {
			time.Sleep(3 * time.Millisecond)
		}
	}
	snap := func() string {
		var b strings.Builder
		mine := map[string]bool{}
		for i := range c.in.Tasks {
			mine[pathFor(c.in)(c.name, i)] = true
		}
		ros := c.w.Sim.Taskman.VerifRoster()
		sort.Slice(ros, func(a, b int) bool { return ros[a].RolePath < ros[b].RolePath })
		for _, t := range ros {
			if mine[t.RolePath] {
				fmt.Fprintf(&b, "%s=%s/%s;", t.RolePath, t.State, t.Status)
			}
		}
		fmt.Fprint(&b, c.env.RoleView(), c.env.Reported(), c.env.Commanded(""), len(c.env.RunEvents()), c.env.RunEndVar(), c.env.State())
		if !hang && c.env.E != nil {
			fmt.Fprint(&b, c.env.E.CurrentTransition())
		}
		return b.String()
	}
	end = time.Now().Add(4 * time.Second)
	last, same := snap(), 0
	for time.Now().Before(end) && same < 8 {
		time.Sleep(4 * time.Millisecond)
		if cur := snap(); cur != last {
			last, same = cur, 0
		} else {
			same++
		}
	}
}

// wantAfterCmd: role states the tasks reach after a request that returned `got`: the commanded
// tasks (role ACTIVE in the previous view, not hit by a fault inside the request) per their
// scripted outcome when the request succeeded
func (c *caseRun) wantAfterCmd(ev string, oc []string, got string, skip []int) map[int]int {
	want := map[int]int{}
	dstEnv := map[string]string{"CONFIGURE": "CONFIGURED", "START": "RUNNING", "STOP": "CONFIGURED", "RESET": "DEPLOYED"}[ev]
	src := map[string]int{"CONFIGURE": 1, "START": 2, "STOP": 3, "RESET": 2}[ev]
	dst := map[string]int{"CONFIGURE": 2, "START": 3, "STOP": 2, "RESET": 1}[ev]
	if got != dstEnv || c0203.EnvStateCode[dstEnv] == c.prevState {
		return want
	}
	for i, v := range c.prevView {
		if v[1] != 3 || containsInt(skip, i) {
			continue
		}
		o := "ack"
		if i < len(oc) {
			o = oc[i]
		}
		switch o {
		case "ack", "":
			want[i] = dst
		case "errsrc":
			want[i] = src
		case "errerr":
			want[i] = 4
		}
	}
	return want
}

// wantAfterError: the watcher's STOP after it took a RUNNING environment to ERROR: tasks still
// RUNNING and ACTIVE that are scripted to answer
func (c *caseRun) wantAfterError(want map[int]int, oc []string) map[int]int {
	if c.env.State() != "ERROR" {
		return want
	}
	for i, v := range c.env.RoleView() {
		if _, ok := want[i]; ok || v[0] != 3 || v[1] != 3 {
			continue
		}
		o := "ack"
		if i < len(oc) {
			o = oc[i]
		}
		switch o {
		case "ack", "":
			want[i] = 2
		case "errerr":
			want[i] = 4
		}
	}
	return want
}

func containsInt(xs []int, x int) bool {
	for _, y := range xs {
		if x == y {
			return true
		}
	}
	return false
}

// allRostered: the precondition of every failure path - each task of the live environment is an
// entry of the task manager's roster
func (c *caseRun) allRostered() bool {
	in := map[string]bool{}
	for _, t := range c.w.Sim.Taskman.VerifRoster() {
		in[t.TaskId] = true
	}
	for i := range c.in.Tasks {
		if id := c.taskId(i); id == "" || !in[id] {
			return false
		}
	}
	return true
}

func (c *caseRun) observe(so *StepObs, want map[int]int) {
	c.settleObs(want, so.Hang)
	so.State = c0203.EnvStateCode[c.env.State()]
	so.Reported = c.env.Reported()
	so.Cmded = c.env.Commanded("")
	so.REnd = c.env.RunEndVar()
	evs := c.env.RunEvents()
	so.RunEvs = []int{}
	for _, e := range evs[min(c.runAt, len(evs)):] {
		code, ok := runEvCode[e.Transition+"/"+e.Status]
		if !ok {
			code = 9
		}
		so.RunEvs = append(so.RunEvs, code)
	}
	c.runAt = len(evs)
	so.Tasks = c.env.RoleView()
	so.Rostered = c.allRostered()
	c.prevView, c.prevState = so.Tasks, so.State
}

// waitAfterFault: more than the watcher's 500 ms; when a critical task was hit, until ERROR (bounded),
// then until the task view has been stable for a while (the watcher's STOP command and its replies)
func (c *caseRun) waitAfterFault(anyCrit bool) {
	t0 := time.Now()
	if anyCrit {
		waitFor(4*time.Second, func() bool { return c.env.State() == "ERROR" })
	}
	if c.env.State() != "ERROR" {
		if d := 680*time.Millisecond - time.Since(t0); d > 0 {
			time.Sleep(d)
		}
		if c.env.State() != "ERROR" {
			time.Sleep(20 * time.Millisecond)
			return
		}
	}
	// in ERROR: wait for the view / command log to stop changing
	last := fmt.Sprint(c.env.RoleView(), c.env.Commanded(""))
	stable := time.Now()
	end := time.Now().Add(700 * time.Millisecond)
	for time.Now().Before(end) {
		time.Sleep(5 * time.Millisecond)
		cur := fmt.Sprint(c.env.RoleView(), c.env.Commanded(""))
		if cur != last {
			last, stable = cur, time.Now()
		} else if time.Since(stable) > 60*time.Millisecond {
			return
		}
	}
}

func (c *caseRun) anyCrit(vs []int) bool {
	for _, i := range vs {
		if c.in.Tasks[i].Crit {
			return true
		}
	}
	return false
}

func runCase(w *c0203.World, idx int, in Input) (obs []StepObs, wedged bool) {
	name := fmt.Sprintf("x%d", idx)
	n := len(in.Tasks)
	c := &caseRun{w: w, in: in, name: name,
		book: taskBook{make([]bool, n), make([]bool, n), make([]bool, n)}}
	w.YAMLOf, w.PathOf = yamlFor(in), pathFor(in)
	var calls []c0203.Call
	probeId := map[string]string{}
	for _, ev := range evNames {
		id := fmt.Sprintf("%s-b%s", name, ev)
		probeId[ev] = id
		calls = append(calls, c0203.Call{Id: id, Trigger: trigger[ev], Critical: false})
	}
	earlyId := name + "-early"
	calls = append(calls, c0203.Call{Id: earlyId, Trigger: "after_CONFIGURE", Critical: false})
	var earlyVs []int
	if in.Early != nil {
		f := *in.Early
		fired := false
		w.OnProbe(earlyId, func() {
			if fired { // only the CONFIGURE of the creation
				return
			}
			fired = true
			c.quiesce()
			earlyVs = c.inject(f)
			c.settleFault(f, earlyVs)
		})
	}
	oldIds := map[string]bool{}
	if in.Claimed {
		// environment A: same tasks, deployed, configured, RESET (tasks STANDBY), destroyed keeping them
		envA, crA := w.Create(name+"a", in.Tasks, nil, nil, nil, "1500ms", 4*time.Second)
		if crA.Err != nil || crA.Hang || envA.E == nil {
			return nil, n > 0
		}
		envA.SetOutcomes(c0203.ParseOutcomes(nil, n))
		envA.Control("RESET", 3*time.Second)
		waitFor(3*time.Second, func() bool {
			k := 0
			for _, t := range w.Sim.Taskman.VerifRoster() {
				if t.EnvId == envA.Id.String() && t.State == "STANDBY" {
					k++
				}
			}
			return k == n
		})
		for _, tid := range envA.TaskIds {
			oldIds[tid] = true
		}
		// A is destroyed (keeping its tasks) between the pre-deployment cleanup and the DEPLOY of the
		// creation below: its tasks are unlocked, ACTIVE and STANDBY when acquireTasks looks for them
		tap.arm(func() {
			done := make(chan struct{})
			go func() {
				defer close(done)
				_, _ = w.Sim.Rpc.DestroyEnvironment(context.Background(), &pb.DestroyEnvironmentRequest{Id: envA.Id.String(), KeepTasks: true})
			}()
			select {
			case <-done:
			case <-time.After(5 * time.Second):
			}
			waitFor(3*time.Second, func() bool {
				k := 0
				for _, t := range w.Sim.Taskman.VerifRoster() {
					if oldIds[t.TaskId] && !t.Locked && t.Claimable {
						k++
					}
				}
				return k == n
			})
			envA.Finish(false)
			if os.Getenv("H03_DEBUG") != "" {
				fmt.Fprintf(os.Stderr, "claimed case %d: roster after A: %+v\n", idx, w.Sim.Taskman.VerifRoster())
			}
		})
		viper.Set("reuseUnlockedTasks", true)
	}
	var releaseKill func()
	if in.Overlap != "" && !in.Claimed {
		envO, crO := w.Create(name+"o", in.Tasks, nil, nil, nil, "1500ms", 4*time.Second)
		if crO.Err != nil || crO.Hang || envO.E == nil {
			return nil, n > 0
		}
		held := map[string]bool{}
		for _, tid := range envO.TaskIds {
			held[tid] = true
		}
		reached, release, destroyed := make(chan struct{}), make(chan struct{}), make(chan struct{})
		var once sync.Once
		fails := in.Overlap == "kill-fails"
		w.Sim.Beh.KillError = func(tid string) error {
			if !held[tid] {
				return nil
			}
			once.Do(func() { close(reached) })
			select {
			case <-release:
			case <-time.After(20 * time.Second):
			}
			if fails {
				return fmt.Errorf("simulated: the master refuses the KILL")
			}
			return nil
		}
		envO.Finish(false)
		go func() {
			defer close(destroyed)
			_, _ = w.Sim.Rpc.DestroyEnvironment(context.Background(), &pb.DestroyEnvironmentRequest{Id: envO.Id.String(), Force: true})
		}()
		select {
		case <-reached:
		case <-time.After(5 * time.Second):
		}
		releaseKill = func() {
			close(release)
			select {
			case <-destroyed:
			case <-time.After(6 * time.Second):
			}
			w.Sim.Beh.KillError = nil
			if fails {
				// the refused tasks are back in the roster, unlocked and alive: killed now (only they: a
				// Cleanup would also take the tasks of this environment that lost their agent / executor)
				ids := []string{}
				for tid := range held {
					ids = append(ids, tid)
				}
				_, _, _ = w.Sim.Taskman.KillTasks(ids)
			}
		}
	}
	env, cr := w.Create(name, in.Tasks, nil, nil, calls, "1500ms", 4*time.Second)
	if releaseKill != nil {
		releaseKill()
	}
	viper.Set("reuseUnlockedTasks", false)
	tap.arm(nil)
	w.OnProbe(earlyId, nil)
	c.env = env
	first := StepObs{Hang: cr.Hang, Victims: earlyVs, IsFault: in.Early != nil}
	if cr.Err != nil {
		first.ErrText = cr.Err.Error()
	}
	alive := cr.Err == nil && !cr.Hang && env.E != nil
	if !alive {
		// lost deployment verdict / lost ACTIVE notification of the DEPLOY loop: scheduling accidents
		// of the creation (reported under C02 / C03-b); the case is repeated in a fresh worker
		if n > 0 {
			return nil, true
		}
		first.Reported, first.Cmded, first.RunEvs, first.Tasks = env.Reported(), []int{}, []int{}, [][2]int{}
		env.Finish(false)
		return []StepObs{first}, false
	}
	if in.Early != nil {
		c.waitAfterFault(c.anyCrit(earlyVs))
	}
	// every task acknowledged the CONFIGURE of the creation; the victims of an early fault are in ERROR
	want0 := map[int]int{}
	for i := range in.Tasks {
		want0[i] = 2
	}
	for _, i := range earlyVs {
		want0[i] = 4
	}
	for _, tid := range env.TaskIds {
		if oldIds[tid] {
			first.Claims++
		}
	}
	if in.Claimed && os.Getenv("H03_DEBUG") != "" {
		fmt.Fprintf(os.Stderr, "claimed case %d: B ids %v old %v accepts %d roster %+v\n", idx, env.TaskIds, oldIds, env.Accepts(), w.Sim.Taskman.VerifRoster())
	}
	c.observe(&first, want0)
	obs = append(obs, first)
	if first.State == 5 {
		env.Finish(true)
		return obs, false
	}
	for _, op := range in.Ops {
		var so StepObs
		want := map[int]int{}
		env.Mark()
		env.SetOutcomes(c0203.ParseOutcomes(op.Oc, n))
		switch op.Kind {
		case "cmd":
			r := env.Control(op.Ev, 3*time.Second)
			so.Hang = r.Hang
			if r.Err != nil {
				so.ErrText = r.Err.Error()
			}
			want = c.wantAfterCmd(op.Ev, op.Oc, r.State, nil)
		case "fault":
			c.quiesce()
			vs := c.inject(*op.F)
			so.Victims, so.IsFault = vs, true
			c.settleFault(*op.F, vs)
			c.waitAfterFault(c.anyCrit(vs) || op.F.Kind == "internal")
			if op.F.Kind != "internal" {
				for _, i := range vs {
					want[i] = 4
				}
			} else if !in.Tasks[op.F.V].Crit {
				want[op.F.V] = 4
			}
			want = c.wantAfterError(want, op.Oc)
		case "refresh":
			c.quiesce()
			omitEx, omitAg := op.Omit == "executor" || op.Omit == "both", op.Omit == "agent" || op.Omit == "both"
			if op.How == "reconnect" {
				simcore.SetReconcileOmit(simcore.AnswerOmit{Executor: omitEx, Agent: omitAg, Source: omitEx && omitAg})
				runs := simcore.ReconcileRuns()
				w.Sim.Reconnect()
				waitFor(45*time.Second, func() bool { return simcore.ReconcileRuns() > runs })
				time.Sleep(30 * time.Millisecond)
				simcore.SetReconcileOmit(simcore.AnswerOmit{})
			} else {
				for i := 0; i < n; i++ {
					if !c.book.simTerminal[i] {
						w.Sim.SendStatus(c.taskId(i), mesos.TASK_RUNNING, simcore.StatusLabel{Reason: reasonOf("reconciliation"), Source: sourceOf("master"),
							OmitAgent: omitAg, OmitExecutor: omitEx})
					}
				}
				time.Sleep(30 * time.Millisecond)
			}
			c.quiesce()
		case "race":
			f := *op.F
			c.quiesce()
			gate.arm(pathFor(in)(name, f.V))
			vs := c.inject(f)
			so.Victims, so.IsFault = vs, true
			so.Raced = gate.waitReached(800 * time.Millisecond)
			tid := c.taskId(f.V)
			if so.Raced {
				// the status update (a goroutine of its own) runs freely
				waitFor(400*time.Millisecond, func() bool {
					for _, t := range w.Sim.Taskman.VerifRoster() {
						if t.TaskId == tid {
							return t.Status == "INACTIVE"
						}
					}
					return true
				})
				// the late reply of the same task, to its end: the role reports its state again
				w.Sim.LateReply(tid, op.Late)
				want := c0203.StateCode[op.Late]
				ok := waitFor(800*time.Millisecond, func() bool { return env.RoleView()[f.V][0] == want })
				if os.Getenv("H03_DEBUG") != "" {
					fmt.Fprintf(os.Stderr, "race case %d: late reply %s applied=%v view=%v roster=%v\n", idx, op.Late, ok, env.RoleView(), w.Sim.Taskman.VerifRoster())
				}
				time.Sleep(6 * time.Millisecond) // the walk up and the watcher back in its select
			}
			gate.open()
			time.Sleep(15 * time.Millisecond)
			c.waitAfterFault(c.anyCrit(vs))
			want = c.wantAfterError(want, op.Oc)
		case "cmdfault":
			var vs []int
			injected := false
			f := *op.F
			w.OnProbe(probeId[op.Ev], func() {
				if injected {
					return
				}
				injected = true
				c.quiesce()
				vs = c.inject(f)
				c.settleFault(f, vs)
			})
			r := env.Control(op.Ev, 3*time.Second)
			w.OnProbe(probeId[op.Ev], nil)
			so.Hang = r.Hang
			if r.Err != nil {
				so.ErrText = r.Err.Error()
			}
			if vs == nil {
				vs = []int{}
			}
			so.Victims, so.IsFault = vs, injected
			if injected {
				c.waitAfterFault(c.anyCrit(vs) || f.Kind == "internal")
				skip := vs
				if f.Kind == "internal" {
					skip = nil
				}
				if c.env.State() != "ERROR" {
					want = c.wantAfterCmd(op.Ev, op.Oc, r.State, skip)
				}
				if f.Kind != "internal" {
					for _, i := range vs {
						want[i] = 4
					}
				}
				want = c.wantAfterError(want, op.Oc)
			} else {
				want = c.wantAfterCmd(op.Ev, op.Oc, r.State, nil)
			}
		}
		c.observe(&so, want)
		obs = append(obs, so)
		if so.Hang || so.State == 5 {
			break
		}
	}
	last := obs[len(obs)-1]
	env.Finish(!last.Hang)
	return obs, false
}

func waitFor(d time.Duration, f func() bool) bool {
	end := time.Now().Add(d)
	for {
		if f() {
			return true
		}
		if time.Now().After(end) {
			return false
		}
		time.Sleep(2 * time.Millisecond)
	}
}

// ---------------------------------------------------------------- Coq terms

var outTerm = map[string]string{"ack": "Ack", "": "Ack", "errsrc": "ErrSrc", "errerr": "ErrErr", "sendfail": "SendFail"}

func natList(xs []int) string {
	items := make([]string, len(xs))
	for i, x := range xs {
		items[i] = fmt.Sprintf("%d%%nat", x)
	}
	return gen.List(items)
}

func nList(xs []int) string {
	items := make([]string, len(xs))
	for i, x := range xs {
		items[i] = fmt.Sprintf("%d", x)
	}
	return gen.List(items)
}

func ocTerm(oc []string) string {
	items := make([]string, len(oc))
	for i, o := range oc {
		items[i] = outTerm[o]
	}
	return gen.List(items)
}

func faultTerm(f Fault, vs []int) string {
	if f.Kind == "internal" {
		return fmt.Sprintf("(FInternal %d%%nat)", f.V)
	}
	return fmt.Sprintf("(FDead %s)", natList(vs))
}

func treeTerm(in Input) (string, string) {
	l := mkLayout(in)
	leaf := func(i int) string { return fmt.Sprintf("Leaf %s STANDBY INACTIVE", gen.Bool(in.Tasks[i].Crit)) }
	var top []string
	for _, c := range l.top {
		if c >= 0 {
			top = append(top, leaf(c))
			continue
		}
		var ms []string
		for _, m := range l.inGrp[-c] {
			ms = append(ms, leaf(m))
		}
		top = append(top, "Agg STANDBY INACTIVE "+gen.List(ms))
	}
	ps := make([]string, len(l.paths))
	for i, p := range l.paths {
		ps[i] = natList(p)
	}
	return "(Agg STANDBY INACTIVE " + gen.List(top) + ")", gen.List(ps)
}

func obsTerm(o StepObs) string {
	ts := make([]string, len(o.Tasks))
	for i, t := range o.Tasks {
		ts[i] = fmt.Sprintf("(%d, %d)", t[0], t[1])
	}
	return fmt.Sprintf("(mkWO %d %s %s %s %d %s %s %s)", o.State, gen.Bool(o.Hang), nList(o.Reported), nList(o.Cmded), o.REnd, nList(o.RunEvs), gen.List(ts), gen.Bool(o.Rostered))
}

// the faults of the term carry the victims the harness computed while running the case (obs[k+1]
// belongs to ops[k]); steps that were not reached get the single victim
func caseTerm(in Input, obs []StepObs) string {
	tree, paths := treeTerm(in)
	victims := func(k int, f Fault) []int {
		if k < len(obs) && obs[k].Victims != nil && obs[k].IsFault {
			return obs[k].Victims
		}
		return []int{f.V}
	}
	early := "None"
	kinds := []int{}
	if in.Early != nil {
		early = "(Some " + faultTerm(*in.Early, victims(0, *in.Early)) + ")"
		kinds = append(kinds, labelCode(*in.Early))
	}
	ops := make([]string, len(in.Ops))
	for i, o := range in.Ops {
		switch o.Kind {
		case "cmd":
			ops[i] = fmt.Sprintf("SCmd %s %s", o.Ev, ocTerm(o.Oc))
		case "fault":
			ops[i] = fmt.Sprintf("SFault %s %s", faultTerm(*o.F, victims(i+1, *o.F)), ocTerm(o.Oc))
			kinds = append(kinds, labelCode(*o.F))
		case "cmdfault":
			ops[i] = fmt.Sprintf("SCmdFault %s %s %s", o.Ev, faultTerm(*o.F, victims(i+1, *o.F)), ocTerm(o.Oc))
			kinds = append(kinds, labelCode(*o.F))
		case "refresh":
			ops[i] = "SRefresh"
		case "race":
			// held at the hand-over and overtaken: SRace; otherwise (role already in ERROR: no role
			// event, nothing to hold) it was an ordinary idle fault
			if i+1 >= len(obs) || obs[i+1].Raced {
				ops[i] = fmt.Sprintf("SRace %d%%nat %s %s", o.F.V, o.Late, ocTerm(o.Oc))
			} else {
				ops[i] = fmt.Sprintf("SFault %s %s", faultTerm(*o.F, victims(i+1, *o.F)), ocTerm(o.Oc))
			}
			kinds = append(kinds, labelCode(*o.F))
		}
	}
	os := make([]string, len(obs))
	for i, o := range obs {
		os[i] = obsTerm(o)
	}
	return fmt.Sprintf("mkCase3 (mkIn3 %s %s %s %s %s) %s", tree, paths, early, gen.List(ops), nList(kinds), gen.List(os))
}

// ---------------------------------------------------------------- generators

var modes = []string{"basic", "direct", "fairmq"}
var kindsAll = []string{"failed", "lost", "killed", "executor", "agent", "internal", "error"}

// genRefresh: benign TASK_RUNNING traffic before a failure, half of it with ids left out
func genRefresh(r *gen.Rand) Op {
	return Op{Kind: "refresh", How: []string{"reconnect", "update"}[r.Intn(2)], Omit: []string{"none", "executor", "agent", "both", "both", "executor"}[r.Intn(6)]}
}

// genLabel: half of the failures are reported as the simulated executor does; the others vary the
// reason code, the source, the optional fields and (1 in 12) the route: reconciliation answer after
// a reconnection
func genLabel(r *gen.Rand, f *Fault, allowReconnect bool) {
	switch f.Kind {
	case "failed", "lost", "killed", "error":
		if r.Chance(1, 2) {
			return
		}
		l := &Label{Reason: reasonNames[r.Intn(len(reasonNames))], Src: srcNames[r.Intn(len(srcNames))], Bare: r.Chance(1, 5), NoUUID: r.Chance(1, 4)}
		if allowReconnect && r.Chance(1, 6) {
			l = &Label{Path: "reconnect", Bare: r.Chance(1, 5)}
		}
		f.L = l
	case "executor":
		if r.Chance(1, 3) {
			f.L = &Label{Bare: true}
		}
	}
}

func acks(n int) []string {
	out := make([]string, n)
	for i := range out {
		out[i] = "ack"
	}
	return out
}

type genState struct {
	r     *gen.Rand
	in    *Input
	alive []bool
	state string
}

func (g *genState) pickVictim(wantCrit bool) int {
	var cand []int
	for i, t := range g.in.Tasks {
		if g.alive[i] && t.Crit == wantCrit {
			cand = append(cand, i)
		}
	}
	if len(cand) == 0 {
		for i := range g.in.Tasks {
			if g.alive[i] {
				cand = append(cand, i)
			}
		}
	}
	if len(cand) == 0 {
		return -1
	}
	return cand[g.r.Intn(len(cand))]
}

// victims as the generator sees them (same host for an agent failure); marks them dead
func (g *genState) kill(f Fault) (critHit bool) {
	if f.Kind == "internal" {
		return g.in.Tasks[f.V].Crit
	}
	for i, t := range g.in.Tasks {
		if i == f.V || ((f.Kind == "agent" || f.Kind == "executor") && t.Host == g.in.Tasks[f.V].Host) {
			g.alive[i] = false
			if t.Crit {
				critHit = true
			}
		}
	}
	return
}

func (g *genState) outcomes() []string {
	oc := acks(len(g.in.Tasks))
	if g.r.Chance(1, 4) {
		// a non-critical task fails the command (tolerated when something else is commanded too)
		var non []int
		for i, t := range g.in.Tasks {
			if g.alive[i] && !t.Crit {
				non = append(non, i)
			}
		}
		if len(non) > 0 {
			oc[non[g.r.Intn(len(non))]] = g.r.Pick([]string{"errsrc", "errerr", "sendfail"})
		}
	}
	return oc
}

func genCase(r *gen.Rand) (Input, string) {
	var in Input
	n := []int{1, 2, 2, 3, 3, 4, 5}[r.Intn(7)]
	critPattern := r.Intn(5)
	for i := 0; i < n; i++ {
		crit := true
		switch critPattern {
		case 0:
		case 1:
			crit = i == 0
		default:
			crit = r.Chance(1, 2)
		}
		in.Tasks = append(in.Tasks, c0203.Task{Crit: crit, Mode: modes[r.Intn(3)], Host: r.Range(1, 3)})
	}
	if critPattern == 1 && n > 1 {
		j := r.Intn(n)
		in.Tasks[0].Crit, in.Tasks[j].Crit = in.Tasks[j].Crit, in.Tasks[0].Crit
	}
	in.Groups = make([]int, n)
	kind := "flat"
	if n >= 2 && r.Chance(2, 5) {
		kind = "nested"
		ng := 1 + r.Intn(2)
		for i := range in.Groups {
			if r.Chance(1, 2) {
				in.Groups[i] = 1 + r.Intn(ng)
			}
		}
	}
	if r.Chance(1, 5) {
		kind += "-claimed"
		in.Claimed = true
	} else if r.Chance(1, 6) {
		kind += "-overlap"
		in.Overlap = []string{"kill-ok", "kill-ok", "kill-fails"}[r.Intn(3)]
	}
	g := &genState{r: r, in: &in, alive: make([]bool, n), state: "CONFIGURED"}
	for i := range g.alive {
		g.alive[i] = true
	}
	if r.Chance(1, 8) {
		kind += "-early"
		v := g.pickVictim(r.Chance(3, 5))
		f := Fault{Kind: kindsAll[r.Intn(7)], V: v}
		genLabel(r, &f, false)
		in.Early = &f
		g.kill(f) // a critical victim: the environment goes to ERROR at once, the script is not reached
	}
	steps := r.Range(1, 5)
	for s := 0; s < steps; s++ {
		what := r.Intn(10)
		switch {
		case what < 4: // plain request along the state graph
			var ev string
			switch g.state {
			case "CONFIGURED":
				ev = []string{"START", "START", "START", "RESET"}[r.Intn(4)]
			case "RUNNING":
				ev = "STOP"
			case "DEPLOYED":
				ev = "CONFIGURE"
			}
			anyAlive := false
			for i := range g.alive {
				anyAlive = anyAlive || g.alive[i]
			}
			if ev == "CONFIGURE" && !anyAlive {
				continue // CONFIGURE with nothing to command never returns (C02-a2)
			}
			in.Ops = append(in.Ops, Op{Kind: "cmd", Ev: ev, Oc: g.outcomes()})
			g.state = map[string]string{"START": "RUNNING", "STOP": "CONFIGURED", "RESET": "DEPLOYED", "CONFIGURE": "CONFIGURED"}[ev]
		case what < 8: // idle fault
			v := g.pickVictim(r.Chance(1, 2))
			if v < 0 {
				continue
			}
			f := Fault{Kind: kindsAll[r.Intn(7)], V: v}
			if g.state == "RUNNING" && r.Chance(1, 4) {
				f.Kind = "internal"
			}
			genLabel(r, &f, true)
			oc := acks(n)
			if f.Kind == "internal" && r.Chance(1, 2) {
				oc[v] = "errerr" // a device in ERROR refuses the STOP
			}
			if r.Chance(1, 4) {
				in.Ops = append(in.Ops, genRefresh(r))
			}
			in.Ops = append(in.Ops, Op{Kind: "fault", F: &f, Oc: oc})
			if g.kill(f) {
				s = steps // a critical task failed: the environment goes to ERROR, the script ends
			}
		case what == 8 && g.state != "": // a failure overtaken at the leaf by a late reply of the same task
			v := g.pickVictim(r.Chance(2, 3))
			if v < 0 {
				continue
			}
			f := Fault{Kind: kindsAll[r.Intn(3)], V: v}
			oc := acks(n)
			oc[v] = "sendfail" // nothing can be delivered to the dead task
			late := map[string]string{"CONFIGURED": "CONFIGURED", "RUNNING": "RUNNING", "DEPLOYED": "STANDBY"}[g.state]
			in.Ops = append(in.Ops, Op{Kind: "race", F: &f, Late: late, Oc: oc})
			if g.kill(f) {
				s = steps
			}
		default: // fault inside a request
			var ev string
			switch g.state {
			case "CONFIGURED":
				ev = []string{"START", "START", "RESET"}[r.Intn(3)]
			case "RUNNING":
				ev = "STOP"
			case "DEPLOYED":
				ev = "CONFIGURE"
			}
			v := g.pickVictim(r.Chance(1, 2))
			if v < 0 {
				continue
			}
			f := Fault{Kind: kindsAll[r.Intn(7)], V: v}
			genLabel(r, &f, false)
			if r.Chance(1, 4) {
				in.Ops = append(in.Ops, genRefresh(r))
			}
			in.Ops = append(in.Ops, Op{Kind: "cmdfault", Ev: ev, F: &f, Oc: acks(n)})
			crit := g.kill(f)
			g.state = map[string]string{"START": "RUNNING", "STOP": "CONFIGURED", "RESET": "DEPLOYED", "CONFIGURE": "CONFIGURED"}[ev]
			if crit {
				s = steps
			}
			anyAlive := false
			for i := range g.alive {
				anyAlive = anyAlive || g.alive[i]
			}
			if !anyAlive {
				s = steps
			}
		}
	}
	return in, kind
}

// the witnesses of the refutation theorems of props/C03.v and the positive side, always run first
func corpus() []job {
	t := func(crit bool, mode string, host int) c0203.Task { return c0203.Task{Crit: crit, Mode: mode, Host: host} }
	var js []job
	add := func(kind string, in Input) {
		if in.Groups == nil {
			in.Groups = make([]int, len(in.Tasks))
		}
		js = append(js, job{Kind: kind, In: in})
	}
	two := []c0203.Task{t(true, "direct", 1), t(false, "fairmq", 2)}
	a2 := []string{"ack", "ack"}
	// regression cases of the repaired findings (they were the witnesses of the refutation theorems)
	// C03-a: the critical task dies inside an after_CONFIGURE hook of the creation
	add("corpus-early-critical", Input{Tasks: two, Early: &Fault{Kind: "failed", V: 0}})
	// C03-c: TASK_INTERNAL_ERROR of the non-critical task while RUNNING
	add("corpus-internal-noncritical", Input{Tasks: two, Ops: []Op{{Kind: "cmd", Ev: "START", Oc: a2}, {Kind: "fault", F: &Fault{Kind: "internal", V: 1}, Oc: a2}}})
	// C03-d: TASK_INTERNAL_ERROR of the critical task while CONFIGURED
	add("corpus-internal-critical-configured", Input{Tasks: two, Ops: []Op{{Kind: "fault", F: &Fault{Kind: "internal", V: 0}, Oc: a2}}})
	// positive side: every kind of failure of the critical task, RUNNING and CONFIGURED
	for _, k := range []string{"failed", "lost", "killed", "executor", "agent"} {
		add("corpus-critical-running-"+k, Input{Tasks: two, Ops: []Op{{Kind: "cmd", Ev: "START", Oc: a2}, {Kind: "fault", F: &Fault{Kind: k, V: 0}, Oc: a2}}})
	}
	add("corpus-critical-configured", Input{Tasks: two, Ops: []Op{{Kind: "fault", F: &Fault{Kind: "lost", V: 0}, Oc: a2}}})
	add("corpus-internal-critical-running", Input{Tasks: two, Ops: []Op{{Kind: "cmd", Ev: "START", Oc: a2}, {Kind: "fault", F: &Fault{Kind: "internal", V: 0}, Oc: []string{"errerr", "ack"}}}})
	// non-critical failures of every kind: nothing changes
	add("corpus-noncritical-all-kinds", Input{Tasks: []c0203.Task{t(true, "direct", 1), t(false, "fairmq", 2), t(false, "basic", 3), t(false, "direct", 3)},
		Ops: []Op{{Kind: "cmd", Ev: "START", Oc: acks(4)}, {Kind: "fault", F: &Fault{Kind: "killed", V: 1}, Oc: acks(4)}, {Kind: "fault", F: &Fault{Kind: "agent", V: 2}, Oc: acks(4)}, {Kind: "cmd", Ev: "STOP", Oc: acks(4)}}})
	// racing with a request: the critical task dies inside before_START_ACTIVITY; nested workflow
	add("corpus-race-start-critical", Input{Tasks: []c0203.Task{t(true, "direct", 1), t(true, "fairmq", 2), t(false, "basic", 2)}, Groups: []int{1, 0, 1},
		Ops: []Op{{Kind: "cmdfault", Ev: "START", F: &Fault{Kind: "failed", V: 0}, Oc: acks(3)}}})
	add("corpus-race-stop-noncritical", Input{Tasks: []c0203.Task{t(true, "direct", 1), t(false, "fairmq", 2)},
		Ops: []Op{{Kind: "cmd", Ev: "START", Oc: a2}, {Kind: "cmdfault", Ev: "STOP", F: &Fault{Kind: "executor", V: 1}, Oc: a2}}})
	// the ERROR of the dying task is held at the hand-over to its parent role and overtaken by a late
	// reply of the same task (seeded change C03-1: the role re-reads its cache instead of passing on
	// what it was called with)
	sf := func(n, v int) []string { oc := acks(n); oc[v] = "sendfail"; return oc }
	add("corpus-overtaken-running-critical", Input{Tasks: two, Ops: []Op{{Kind: "cmd", Ev: "START", Oc: a2}, {Kind: "race", F: &Fault{Kind: "failed", V: 0}, Late: "RUNNING", Oc: sf(2, 0)}}})
	add("corpus-overtaken-configured-critical", Input{Tasks: two, Ops: []Op{{Kind: "race", F: &Fault{Kind: "lost", V: 0}, Late: "CONFIGURED", Oc: sf(2, 0)}}})
	add("corpus-overtaken-running-nested", Input{Tasks: []c0203.Task{t(true, "direct", 1), t(true, "fairmq", 2), t(false, "basic", 2)}, Groups: []int{1, 1, 0},
		Ops: []Op{{Kind: "cmd", Ev: "START", Oc: acks(3)}, {Kind: "race", F: &Fault{Kind: "killed", V: 1}, Late: "RUNNING", Oc: sf(3, 1)}}})
	add("corpus-overtaken-noncritical", Input{Tasks: two, Ops: []Op{{Kind: "cmd", Ev: "START", Oc: a2}, {Kind: "race", F: &Fault{Kind: "failed", V: 1}, Late: "RUNNING", Oc: sf(2, 1)}, {Kind: "cmd", Ev: "STOP", Oc: a2}}})
	// the label and the route of the report must not matter (seeded change C03-2: a terminal status
	// with reason REASON_RECONCILIATION no longer puts the task in ERROR)
	lab := func(kind string, v int, l Label) *Fault { return &Fault{Kind: kind, V: v, L: &l} }
	add("corpus-label-reconciliation-reason-running-critical", Input{Tasks: two, Ops: []Op{{Kind: "cmd", Ev: "START", Oc: a2},
		{Kind: "fault", F: lab("lost", 0, Label{Reason: "reconciliation", Src: "master", NoUUID: true}), Oc: a2}}})
	add("corpus-label-reconnect-running-critical", Input{Tasks: two, Ops: []Op{{Kind: "cmd", Ev: "START", Oc: a2},
		{Kind: "fault", F: lab("failed", 0, Label{Path: "reconnect"}), Oc: a2}}})
	add("corpus-label-reconnect-configured-critical", Input{Tasks: two, Ops: []Op{{Kind: "fault", F: lab("killed", 0, Label{Path: "reconnect", Bare: true}), Oc: a2}}})
	add("corpus-label-agent-removed-configured-critical", Input{Tasks: two, Ops: []Op{{Kind: "fault", F: lab("lost", 0, Label{Reason: "agent_removed", Src: "master"}), Oc: a2}}})
	add("corpus-label-bare-running-critical", Input{Tasks: two, Ops: []Op{{Kind: "cmd", Ev: "START", Oc: a2},
		{Kind: "fault", F: lab("error", 0, Label{Reason: "none", Src: "none", Bare: true, NoUUID: true}), Oc: a2}}})
	add("corpus-label-executor-bare-critical", Input{Tasks: two, Ops: []Op{{Kind: "cmd", Ev: "START", Oc: a2}, {Kind: "fault", F: lab("executor", 0, Label{Bare: true}), Oc: a2}}})
	add("corpus-label-noncritical", Input{Tasks: []c0203.Task{t(true, "direct", 1), t(false, "fairmq", 2), t(false, "basic", 3)},
		Ops: []Op{{Kind: "cmd", Ev: "START", Oc: acks(3)}, {Kind: "fault", F: lab("lost", 1, Label{Path: "reconnect"}), Oc: acks(3)},
			{Kind: "fault", F: lab("failed", 2, Label{Reason: "reconciliation", Src: "master", NoUUID: true}), Oc: acks(3)}, {Kind: "cmd", Ev: "STOP", Oc: acks(3)}}})
	// claimed tasks: every message of the task names the environment that launched it, the failure must
	// reach the environment that owns it now (seeded change C03-5: handleDeviceEvent looks the environment
	// up by the label of the device event)
	add("corpus-claimed-internal-configured-critical", Input{Tasks: two, Claimed: true, Ops: []Op{{Kind: "fault", F: &Fault{Kind: "internal", V: 0}, Oc: a2}}})
	add("corpus-claimed-internal-running-critical", Input{Tasks: two, Claimed: true, Ops: []Op{{Kind: "cmd", Ev: "START", Oc: a2}, {Kind: "fault", F: &Fault{Kind: "internal", V: 0}, Oc: a2}}})
	add("corpus-claimed-internal-running-noncritical", Input{Tasks: two, Claimed: true, Ops: []Op{{Kind: "cmd", Ev: "START", Oc: a2}, {Kind: "fault", F: &Fault{Kind: "internal", V: 1}, Oc: a2}, {Kind: "cmd", Ev: "STOP", Oc: a2}}})
	add("corpus-claimed-lost-running-critical", Input{Tasks: two, Claimed: true, Ops: []Op{{Kind: "cmd", Ev: "START", Oc: a2}, {Kind: "fault", F: &Fault{Kind: "lost", V: 0}, Oc: a2}}})
	add("corpus-claimed-reconnect-configured-critical", Input{Tasks: two, Claimed: true, Ops: []Op{{Kind: "fault", F: lab("failed", 0, Label{Path: "reconnect"}), Oc: a2}}})
	add("corpus-claimed-executor-running-critical", Input{Tasks: two, Claimed: true, Ops: []Op{{Kind: "cmd", Ev: "START", Oc: a2}, {Kind: "fault", F: &Fault{Kind: "executor", V: 0}, Oc: a2}}})
	add("corpus-claimed-agent-nested", Input{Tasks: []c0203.Task{t(true, "direct", 1), t(true, "fairmq", 2), t(false, "basic", 2)}, Groups: []int{1, 1, 0}, Claimed: true,
		Ops: []Op{{Kind: "cmd", Ev: "START", Oc: acks(3)}, {Kind: "fault", F: &Fault{Kind: "agent", V: 2}, Oc: acks(3)}}})
	add("corpus-claimed-early-internal-critical", Input{Tasks: two, Claimed: true, Early: &Fault{Kind: "internal", V: 0}})
	// benign status traffic first: TASK_RUNNING reconciliation answers without executor id / agent id
	// (a master need not send them), then every kind of failure of the critical task (seeded change
	// C03-6 = C18-5: the refresh of the ids lost its nil guards, the task stops being locked)
	for _, k := range []string{"failed", "lost", "killed", "error", "executor", "agent", "internal"} {
		add("corpus-refresh-bare-then-"+k, Input{Tasks: two, Ops: []Op{{Kind: "cmd", Ev: "START", Oc: a2},
			{Kind: "refresh", How: "reconnect", Omit: "both"}, {Kind: "fault", F: &Fault{Kind: k, V: 0}, Oc: a2}}})
	}
	add("corpus-refresh-update-noexecutor-then-lost-configured", Input{Tasks: two, Ops: []Op{{Kind: "refresh", How: "update", Omit: "executor"}, {Kind: "fault", F: &Fault{Kind: "lost", V: 0}, Oc: a2}}})
	add("corpus-refresh-update-noagent-then-agent", Input{Tasks: two, Ops: []Op{{Kind: "cmd", Ev: "START", Oc: a2}, {Kind: "refresh", How: "update", Omit: "agent"}, {Kind: "fault", F: &Fault{Kind: "agent", V: 0}, Oc: a2}}})
	add("corpus-refresh-claimed-then-executor", Input{Tasks: two, Claimed: true, Ops: []Op{{Kind: "cmd", Ev: "START", Oc: a2}, {Kind: "refresh", How: "reconnect", Omit: "executor"}, {Kind: "fault", F: &Fault{Kind: "executor", V: 0}, Oc: a2}}})
	add("corpus-refresh-then-noncritical-and-stop", Input{Tasks: two, Ops: []Op{{Kind: "cmd", Ev: "START", Oc: a2}, {Kind: "refresh", How: "reconnect", Omit: "both"},
		{Kind: "fault", F: &Fault{Kind: "failed", V: 1}, Oc: a2}, {Kind: "cmd", Ev: "STOP", Oc: a2}}})
	// concurrent roster traffic of another environment: its teardown (a held KILL call) overlaps the whole
	// deployment of the environment of the case; then every failure kind (seeded change C03-7: doKillTasks
	// writes a stale roster snapshot back after its KILL calls and erases the tasks deployed meanwhile)
	for _, k := range []string{"failed", "lost", "killed", "error", "executor", "agent", "internal"} {
		add("corpus-overlap-then-"+k, Input{Tasks: two, Overlap: "kill-ok", Ops: []Op{{Kind: "cmd", Ev: "START", Oc: a2}, {Kind: "fault", F: &Fault{Kind: k, V: 0}, Oc: a2}}})
	}
	add("corpus-overlap-killfails-then-lost-configured", Input{Tasks: two, Overlap: "kill-fails", Ops: []Op{{Kind: "fault", F: &Fault{Kind: "lost", V: 0}, Oc: a2}}})
	add("corpus-overlap-killfails-then-internal", Input{Tasks: two, Overlap: "kill-fails", Ops: []Op{{Kind: "cmd", Ev: "START", Oc: a2}, {Kind: "fault", F: &Fault{Kind: "internal", V: 0}, Oc: a2}}})
	return js
}

// ---------------------------------------------------------------- workers (as h02)

func buildDir() string {
	if d := os.Getenv("VERIF_BUILD"); d != "" {
		return d
	}
	return "/verif/build"
}

func childMain(inFile, outFile string, wid int) {
	raw, err := os.ReadFile(inFile)
	if err != nil {
		fmt.Fprintln(os.Stderr, err)
		os.Exit(2)
	}
	var jobs []job
	if err := json.Unmarshal(raw, &jobs); err != nil {
		fmt.Fprintln(os.Stderr, err)
		os.Exit(2)
	}
	// one scratch directory per worker process: a second `./check C03` running at the same time must
	// not wipe the workflow repository under a live core
	simDir := filepath.Join(buildDir(), "sim", fmt.Sprintf("c03w%dp%d", wid, os.Getpid()))
	defer os.RemoveAll(simDir)
	w, err := c0203.NewWorld(simDir, 3, os.Getenv("SIM_VERBOSE") != "")
	if err != nil {
		fmt.Fprintln(os.Stderr, "world:", err)
		os.Exit(2)
	}
	the.VerifC02SetEventWriter(topic.Role, gate)
	tap = &envTap{inner: w.EventCapture()}
	the.VerifC02SetEventWriter(topic.Environment, tap)
	f, err := os.Create(outFile)
	if err != nil {
		fmt.Fprintln(os.Stderr, err)
		os.Exit(2)
	}
	enc := json.NewEncoder(f)
	for _, j := range jobs {
		obs, wedged := runCase(w, j.Idx, j.In)
		if wedged && os.Getenv("H03_LAST_TRY") == "" {
			f.Close()
			os.RemoveAll(simDir)
			os.Exit(3)
		}
		if obs == nil {
			obs = []StepObs{}
		}
		_ = enc.Encode(result{Idx: j.Idx, Obs: obs})
		f.Sync()
	}
	f.Close()
	os.RemoveAll(simDir)
	os.Exit(0)
}

var respawns int

func runWorkers(o gen.Opts, jobs []job, workers int) map[int][]StepObs {
	if workers > len(jobs) {
		workers = len(jobs)
	}
	if workers < 1 {
		workers = 1
	}
	parts := make([][]job, workers)
	for i, j := range jobs {
		parts[i%workers] = append(parts[i%workers], j)
	}
	var wg sync.WaitGroup
	res := map[int][]StepObs{}
	var mu sync.Mutex
	for wi := range parts {
		wi := wi
		wg.Add(1)
		go func() {
			defer wg.Done()
			todo := parts[wi]
			for attempt := 0; attempt < 6 && len(todo) > 0; attempt++ {
				inF := filepath.Join(o.Out, fmt.Sprintf("w%d_%d_p%d_in.json", wi, attempt, os.Getpid()))
				outF := filepath.Join(o.Out, fmt.Sprintf("w%d_%d_p%d_out.json", wi, attempt, os.Getpid()))
				b, _ := json.Marshal(todo)
				_ = os.WriteFile(inF, b, 0o644)
				os.Remove(outF)
				cmd := exec.Command(os.Args[0], "-child", inF, "-childout", outF, "-wid", fmt.Sprint(wi), "-out", o.Out)
				cmd.Env = os.Environ()
				if attempt == 5 {
					cmd.Env = append(cmd.Env, "H03_LAST_TRY=1")
				}
				logf, _ := os.Create(filepath.Join(o.Out, fmt.Sprintf("w%d_%d.log", wi, attempt)))
				cmd.Stdout, cmd.Stderr = logf, logf
				_ = cmd.Run()
				if logf != nil {
					logf.Close()
				}
				raw, _ := os.ReadFile(outF)
				got := map[int]bool{}
				for _, line := range strings.Split(string(raw), "\n") {
					if strings.TrimSpace(line) == "" {
						continue
					}
					var r result
					if json.Unmarshal([]byte(line), &r) == nil {
						mu.Lock()
						res[r.Idx] = r.Obs
						mu.Unlock()
						got[r.Idx] = true
					}
				}
				var rest []job
				for _, j := range todo {
					if !got[j.Idx] {
						rest = append(rest, j)
					}
				}
				if len(rest) > 0 {
					mu.Lock()
					respawns++
					mu.Unlock()
				}
				todo = rest
			}
		}()
	}
	wg.Wait()
	return res
}

func main() {
	child := flag.String("child", "", "worker mode: file with the jobs")
	childOut := flag.String("childout", "", "worker mode: result file")
	wid := flag.Int("wid", 0, "worker id")
	workersFlag := flag.Int("workers", 0, "worker processes (default 16 quick / 24 thorough)")
	o := gen.ParseFlags()
	if *child != "" {
		childMain(*child, *childOut, *wid)
		return
	}
	thorough := o.Tier == "thorough"
	var jobs []job
	if o.Replay != "" {
		ins, kinds, err := gen.LoadReplay(o.Replay)
		if err != nil {
			panic(err)
		}
		for i, raw := range ins {
			var in Input
			if err := json.Unmarshal(raw, &in); err != nil {
				panic(err)
			}
			jobs = append(jobs, job{Kind: kinds[i], In: in})
		}
	} else {
		jobs = corpus()
		r := gen.NewRand(o.Seed)
		for i := 0; i < o.N; i++ {
			in, k := genCase(r.Fork())
			jobs = append(jobs, job{Kind: k, In: in})
		}
	}
	for i := range jobs {
		jobs[i].Idx = i
	}
	workers := *workersFlag
	if workers == 0 {
		workers = 16
		if thorough {
			workers = 24
		}
	}
	// The controller of the core rations its (re)registrations with an exponential back-off per
	// process (1 s, 2 s, 4 s, 8 s, 15 s between successive ones, decaying only slowly): at most three
	// reconnections per worker process are kept (the cases are dealt round-robin); further ones become
	// their equivalent without a new subscription - the same status content as a plain update
	if o.Replay == "" {
		perWorker := map[int]int{}
		for i := range jobs {
			wk := i % workers
			for k := range jobs[i].In.Ops {
				op := &jobs[i].In.Ops[k]
				isRefresh := op.Kind == "refresh" && op.How == "reconnect"
				isRoute := op.F != nil && op.F.L != nil && op.F.L.Path == "reconnect"
				if !isRefresh && !isRoute {
					continue
				}
				if perWorker[wk] < 3 {
					perWorker[wk]++
					continue
				}
				if isRefresh {
					op.How = "update"
				} else {
					l := *op.F.L
					l.Path, l.Reason, l.Src, l.NoUUID = "", "reconciliation", "master", true
					f := *op.F
					f.L = &l
					op.F = &f
				}
			}
		}
	}
	t0 := time.Now()
	res := runWorkers(o, jobs, workers)
	var cases []gen.Case
	lost := 0
	faultKinds := map[string]int{}
	instants := map[string]int{}
	labels := map[string]int{}
	for _, j := range jobs {
		obs, ok := res[j.Idx]
		if !ok {
			lost++
			obs = []StepObs{}
		}
		if j.In.Overlap != "" && !j.In.Claimed {
			labels["world=overlapped-teardown,"+j.In.Overlap]++
		}
		if j.In.Claimed {
			labels["world=claimed-tasks"]++
			if ok && len(obs) > 0 && obs[0].Claims == len(j.In.Tasks) {
				labels["world=claimed-tasks,all-claimed"]++
			}
		}
		if j.In.Early != nil {
			faultKinds[j.In.Early.Kind]++
			instants["before-subscription"]++
		}
		for _, op := range j.In.Ops {
			if op.Kind == "refresh" {
				labels["refresh="+op.How+",omit="+op.Omit]++
			}
			if op.F != nil {
				faultKinds[op.F.Kind]++
				if op.F.L != nil {
					if op.F.L.Path == "reconnect" {
						labels["route=reconciliation-after-reconnect"]++
					} else {
						labels["reason="+op.F.L.Reason]++
						labels["source="+op.F.L.Src]++
					}
					if op.F.L.Bare {
						labels["bare"]++
					}
				} else if op.F.Kind != "internal" && op.F.Kind != "agent" {
					labels["as-the-executor-reports"]++
				}
				if op.Kind == "race" {
					instants["idle-overtaken-at-the-leaf"]++
				} else if op.Kind == "fault" {
					instants["idle"]++
				} else {
					instants["inside-"+op.Ev]++
				}
			}
		}
		cases = append(cases, gen.Case{Term: caseTerm(j.In, obs), Kind: j.Kind, Input: j.In, Obs: obs})
	}
	fk := []string{}
	for k, v := range faultKinds {
		fk = append(fk, fmt.Sprintf("%s=%d", k, v))
	}
	sort.Strings(fk)
	ik := []string{}
	for k, v := range instants {
		ik = append(ik, fmt.Sprintf("%s=%d", k, v))
	}
	sort.Strings(ik)
	extra := map[string]any{"workers": workers, "cases_lost_to_worker_crash": lost,
		"worker_respawns_after_lost_deploy_verdict_or_crash": respawns, "run_s": time.Since(t0).Seconds(),
		"fault_kinds": fk, "fault_instants": ik, "fault_labels": labels}
	if err := gen.WriteCases(o, "C03", "From Verif Require Import Common RoleTree TaskCmd Watcher.", "c03_case", "report03", cases, extra); err != nil {
		fmt.Fprintln(os.Stderr, err)
		os.Exit(2)
	}
}
