// Exhaustive enumeration of sm.State.X (8x8) and task.Status.X (5x5) on the running code.
// `h11 -gen <path>/Gen_StateX.v` and `h11 -gen <path>/Gen_StatusX.v`.
package main

import (
	"fmt"
	"os"
	"path/filepath"
	"strings"

	"github.com/AliceO2Group/Control/core/task"
	"github.com/AliceO2Group/Control/core/task/sm"
)

var stateNames = []string{"UNKNOWN", "STANDBY", "CONFIGURED", "RUNNING", "ERROR", "DONE", "MIXED", "INVARIANT"}
var stateConsts = []sm.State{sm.UNKNOWN, sm.STANDBY, sm.CONFIGURED, sm.RUNNING, sm.ERROR, sm.DONE, sm.MIXED, sm.INVARIANT}
var statusNames = []string{"UNDEFINED", "INACTIVE", "PARTIAL", "ACTIVE", "UNDEPLOYABLE"}
var statusConsts = []task.Status{task.UNDEFINED, task.INACTIVE, task.PARTIAL, task.ACTIVE, task.UNDEPLOYABLE}

func genStateX() string {
	var b strings.Builder
	b.WriteString("(* regenerated on every run by `h11 -gen` : sm.State constants and sm.State.X evaluated by the\n   running code on all 8x8 pairs (core/task/sm/state.go) *)\n")
	b.WriteString("From Verif Require Import Common.\nOpen Scope N_scope.\n")
	for i, n := range stateNames {
		fmt.Fprintf(&b, "Definition go_state_%s : N := %d.\n", n, int(stateConsts[i]))
	}
	b.WriteString("Definition stateX_enum : list (N * N * N) := [\n")
	n := len(stateConsts)
	for i := 0; i < n; i++ {
		var items []string
		for j := 0; j < n; j++ {
			a, o := sm.State(i), sm.State(j)
			items = append(items, fmt.Sprintf("(%d, %d, %d)", i, j, int(a.X(o))))
		}
		sep := ";"
		if i == n-1 {
			sep = ""
		}
		b.WriteString("  " + strings.Join(items, "; ") + sep + "\n")
	}
	b.WriteString("].\n")
	return b.String()
}

func genStatusX() string {
	var b strings.Builder
	b.WriteString("(* regenerated on every run by `h11 -gen` : task.Status constants and task.Status.X evaluated by\n   the running code on all 5x5 pairs (core/task/status.go) *)\n")
	b.WriteString("From Verif Require Import Common.\nOpen Scope N_scope.\n")
	for i, n := range statusNames {
		fmt.Fprintf(&b, "Definition go_status_%s : N := %d.\n", n, int(statusConsts[i]))
	}
	b.WriteString("Definition statusX_enum : list (N * N * N) := [\n")
	n := len(statusConsts)
	for i := 0; i < n; i++ {
		var items []string
		for j := 0; j < n; j++ {
			a, o := task.Status(i), task.Status(j)
			items = append(items, fmt.Sprintf("(%d, %d, %d)", i, j, int(a.X(o))))
		}
		sep := ";"
		if i == n-1 {
			sep = ""
		}
		b.WriteString("  " + strings.Join(items, "; ") + sep + "\n")
	}
	b.WriteString("].\n")
	return b.String()
}

func genMode(path string) {
	var out string
	switch filepath.Base(path) {
	case "Gen_StateX.v":
		out = genStateX()
	case "Gen_StatusX.v":
		out = genStatusX()
	default:
		fmt.Fprintln(os.Stderr, "h11 -gen: unknown table", path)
		os.Exit(3)
	}
	old, err := os.ReadFile(path)
	if err == nil && string(old) == out {
		return // unchanged: keep mtime so make does nothing
	}
	if err := os.WriteFile(path, []byte(out), 0o644); err != nil {
		fmt.Fprintln(os.Stderr, err)
		os.Exit(3)
	}
}
