package main

import (
	"fmt"
	"os"

	"github.com/AliceO2Group/Control/common/event"
	"github.com/AliceO2Group/Control/common/gera"
	"github.com/AliceO2Group/Control/common/utils/uid"
	"github.com/AliceO2Group/Control/core/task"
	"github.com/AliceO2Group/Control/core/task/sm"
	"github.com/AliceO2Group/Control/core/workflow"
	"github.com/spf13/viper"
)

const doc = `
name: root
roles:
  - name: a
    roles:
      - name: t1
        task: {load: x, critical: false}
      - name: c1
        call: {func: "testplugin.Noop()", trigger: CONFIGURE, critical: false}
  - name: "it{{ it }}"
    for: {begin: 0, end: 2, var: it}
    task: {load: y}
  - name: inc
    include: sub1
  - name: "ag{{ j }}"
    for: {range: '["p","q"]', var: j}
    roles:
      - name: "z"
        task: {load: y}
`
const sub1 = `
name: sub1
roles:
  - name: s1
    task: {load: z}
  - name: s2
    call: {func: "x.Y()", trigger: START, critical: true}
`

func dump(r workflow.Role, ind string) {
	fmt.Printf("%s%s [%s] crit=%v st=%s stat=%s\n", ind, r.GetPath(), workflow.VerifC11Kind(r), r.IsCritical(), r.GetState(), r.GetStatus())
	for _, c := range r.GetRoles() {
		dump(c, ind+"  ")
	}
}

func main() {
	if len(os.Args) == 3 && os.Args[1] == "-gen" {
		genMode(os.Args[2])
		return
	}
	viper.Set("config_endpoint", "mock://")
	m := gera.MakeMap[string, string]()
	var evs []string
	pa := workflow.NewParentAdapter(func() uid.ID { return uid.NilID() }, func() uint32 { return 0 },
		func() gera.Map[string, string] { return m }, func() gera.Map[string, string] { return m }, func() gera.Map[string, string] { return m },
		func(e event.Event) {
			if re, ok := e.(*event.RoleEvent); ok {
				evs = append(evs, re.RolePath+":"+re.State+"/"+re.Status)
			}
		})
	stCh := make(chan sm.State, 100)
	pa.SubscribeToStateChange("h", stCh)
	root, err := workflow.VerifC11Load([]byte(doc), map[string][]byte{"sub1": []byte(sub1)}, pa)
	if err != nil {
		panic(err)
	}
	dump(root, "")
	var leaves []workflow.Role
	workflow.LeafWalk(root, func(r workflow.Role) { leaves = append(leaves, r) })
	for _, l := range leaves {
		l.(workflow.PublicUpdatable).UpdateState(sm.CONFIGURED)
		l.(workflow.PublicUpdatable).UpdateStatus(task.ACTIVE)
	}
	dump(root, "")
	fmt.Println(evs)
	close(stCh)
	for s := range stCh {
		fmt.Print(s, " ")
	}
	fmt.Println()
}
