// h11: correspondence harness for C11 (a role's state and status are the fold of its subtree).
//
// Builds role trees through the real workflow package (YAML -> yaml.Unmarshal -> ProcessTemplates,
// with task, call, aggregator, include and iterator roles), drives leaf.UpdateState /
// UpdateStatus on them and records, after every update, every node's GetState/GetStatus, the
// RoleEvents handed to ParentAdapter.SendEvents and what the ParentAdapter's subscribers
// received.  Interleavings of UpdateState calls are forced deterministically by blocking inside
// the SendEvents callback (the role code calls it between its own merge and the parent call).
// Gate cases (gate.go) stop one update inside the re-aggregation of an aggregator and start a second
// one meanwhile: pre-emption inside a merge.
//
//	h11 -gen coq/gen/Gen_StateX.v | Gen_StatusX.v     exhaustive tables (see tables.go)
//	h11 -seed N -n N -out DIR [-shards K] [-replay FILE] [-tier quick|thorough]
package main

import (
	"encoding/json"
	"fmt"
	"os"
	"path/filepath"
	"sort"
	"strings"
	"sync"

	"github.com/AliceO2Group/Control/common/event"
	"github.com/AliceO2Group/Control/common/gera"
	"github.com/AliceO2Group/Control/common/utils/uid"
	"github.com/AliceO2Group/Control/core/task"
	"github.com/AliceO2Group/Control/core/task/sm"
	"github.com/AliceO2Group/Control/core/workflow"
	"github.com/sirupsen/logrus"
	"github.com/spf13/viper"

	"verif/harness/internal/gen"
)

// ---------------------------------------------------------------- inputs

// nodeIn describes a role of the workflow template. K: "t" task, "c" call, "a" aggregator,
// "i" include (children = roles of the included workflow), "r" iterator (Ch[0] is the template
// role, N the number of expansions).
type nodeIn struct {
	K    string   `json:"k"`
	Name string   `json:"name"`
	Crit bool     `json:"crit,omitempty"`
	N    int      `json:"n,omitempty"`
	Ch   []nodeIn `json:"ch,omitempty"`
}

// opIn: one UpdateState (S=true) / UpdateStatus call on the leaf with role path Leaf.
type opIn struct {
	Leaf string `json:"leaf"`
	S    bool   `json:"state"`
	V    int    `json:"v"`
}

type presetIn struct {
	Path string `json:"path"`
	St   int    `json:"st"`
	Stat int    `json:"stat"`
}

type input struct {
	Tree   nodeIn     `json:"tree"`
	Mode   int        `json:"mode,omitempty"`   // seq: 0 loaded, 1 leaves preset + recompute, 2 all preset
	Preset []presetIn `json:"preset,omitempty"` // seq modes 1,2
	Ops    []opIn     `json:"ops,omitempty"`
	Ops2   []opIn     `json:"ops2,omitempty"`  // comm: second order
	Tree2  *nodeIn    `json:"tree2,omitempty"` // perm: same roles, children permuted
	Sched  []int      `json:"sched,omitempty"` // conc: token index per segment (Ops are the tokens)
	Gate   *gateIn    `json:"gate,omitempty"`  // gate: Ops[0] is stopped inside the merge of Gate.P, then Ops[1] starts (gate.go)
}

// ---------------------------------------------------------------- YAML

type yamlOut struct {
	main string
	subs map[string][]byte
}

func yq(s string) string { b, _ := json.Marshal(s); return string(b) }

func emitRole(b *strings.Builder, n nodeIn, ind string, subs map[string][]byte) {
	first := ind + "- "
	rest := ind + "  "
	switch n.K {
	case "t":
		fmt.Fprintf(b, "%sname: %s\n", first, yq(n.Name))
		fmt.Fprintf(b, "%stask:\n%s  load: cls\n%s  critical: %v\n", rest, rest, rest, n.Crit)
	case "c":
		fmt.Fprintf(b, "%sname: %s\n", first, yq(n.Name))
		fmt.Fprintf(b, "%scall:\n%s  func: verif.Noop()\n%s  trigger: CONFIGURE\n%s  critical: %v\n", rest, rest, rest, rest, n.Crit)
	case "a":
		fmt.Fprintf(b, "%sname: %s\n", first, yq(n.Name))
		fmt.Fprintf(b, "%sroles:\n", rest)
		for _, c := range n.Ch {
			emitRole(b, c, rest+"  ", subs)
		}
	case "i":
		sub := "sub-" + n.Name
		fmt.Fprintf(b, "%sname: %s\n", first, yq(n.Name))
		fmt.Fprintf(b, "%sinclude: %s\n", rest, sub)
		var sb strings.Builder
		fmt.Fprintf(&sb, "name: %s\nroles:\n", yq(sub))
		for _, c := range n.Ch {
			emitRole(&sb, c, "  ", subs)
		}
		subs[sub] = []byte(sb.String())
	case "r":
		// the iterator takes the shape of its template role; the name carries the variable
		t := n.Ch[0]
		v := "it_" + strings.ReplaceAll(n.Name, "-", "_")
		t2 := t
		t2.Name = t.Name + "-{{ " + v + " }}"
		var tb strings.Builder
		emitRole(&tb, t2, ind, subs)
		s := tb.String()
		// insert the for block after the name line
		nl := strings.Index(s, "\n")
		forBlock := fmt.Sprintf("%sfor:\n%s  begin: 0\n%s  end: %d\n%s  var: %s\n", rest, rest, rest, n.N-1, rest, v)
		b.WriteString(s[:nl+1] + forBlock + s[nl+1:])
	}
}

func toYAML(root nodeIn) yamlOut {
	subs := map[string][]byte{}
	var b strings.Builder
	fmt.Fprintf(&b, "name: %s\nroles:\n", yq(root.Name))
	for _, c := range root.Ch {
		emitRole(&b, c, "  ", subs)
	}
	return yamlOut{b.String(), subs}
}

// ---------------------------------------------------------------- running tree

type recorder struct {
	mu          sync.Mutex
	events      [][2]string // (role path, "S:<state>" | "X:<status>")
	onEvent     func()
	onEventPath func(rolePath string) // gate cases: called on the goroutine that sends the event
}

type live struct {
	root    workflow.Role
	rec     *recorder
	stCh    chan sm.State
	statCh  chan task.Status
	byPath  map[string]workflow.Role
	idxPath map[string][]int // role path -> child indices in the flattened tree
	leaves  []string         // role paths of leaves, in tree order
	aggs    []string         // role paths of aggregators, bottom-up order
}

func load(in nodeIn) (*live, error) {
	y := toYAML(in)
	l := &live{rec: &recorder{}, byPath: map[string]workflow.Role{}, idxPath: map[string][]int{}}
	m := gera.MakeMap[string, string]()
	pa := workflow.NewParentAdapter(func() uid.ID { return uid.NilID() }, func() uint32 { return 0 },
		func() gera.Map[string, string] { return m }, func() gera.Map[string, string] { return m },
		func() gera.Map[string, string] { return m },
		func(e event.Event) {
			path := ""
			if re, ok := e.(*event.RoleEvent); ok {
				v := "S:" + re.State
				if re.State == "" {
					v = "X:" + re.Status
				}
				path = re.RolePath
				l.rec.mu.Lock()
				l.rec.events = append(l.rec.events, [2]string{re.RolePath, v})
				l.rec.mu.Unlock()
			}
			if l.rec.onEvent != nil {
				l.rec.onEvent()
			}
			if f := l.rec.onEventPath; f != nil {
				f(path)
			}
		})
	l.stCh = make(chan sm.State, 4096)
	l.statCh = make(chan task.Status, 4096)
	pa.SubscribeToStateChange("h11", l.stCh)
	pa.SubscribeToStatusChange("h11", l.statCh)
	root, err := workflow.VerifC11Load([]byte(y.main), y.subs, pa)
	if err != nil {
		return nil, fmt.Errorf("%v\n%s", err, y.main)
	}
	l.root = root
	var walk func(r workflow.Role, idx []int)
	walk = func(r workflow.Role, idx []int) {
		p := r.GetPath()
		if _, dup := l.byPath[p]; dup {
			panic("duplicate role path " + p)
		}
		l.byPath[p] = r
		l.idxPath[p] = append([]int{}, idx...)
		switch workflow.VerifC11Kind(r) {
		case "task", "call":
			l.leaves = append(l.leaves, p)
		default:
			for i, c := range r.GetRoles() {
				walk(c, append(append([]int{}, idx...), i))
			}
			l.aggs = append(l.aggs, p)
		}
	}
	walk(root, nil)
	return l, nil
}

// snapshot prints the flattened tree with every node's reported state and status as a Coq term.
func snapshot(r workflow.Role) string {
	st, stat := int(r.GetState()), int(r.GetStatus())
	if st < 0 || st >= len(stateNames) || stat < 0 || stat >= len(statusNames) {
		panic(fmt.Sprintf("value outside the modelled domains: state %d status %d", st, stat))
	}
	switch workflow.VerifC11Kind(r) {
	case "task", "call":
		return fmt.Sprintf("Leaf %s %s %s", gen.Bool(r.IsCritical()), stateNames[st], statusNames[stat])
	default:
		var cs []string
		for _, c := range r.GetRoles() {
			cs = append(cs, snapshot(c))
		}
		return fmt.Sprintf("Agg %s %s %s", stateNames[st], statusNames[stat], gen.List(paren(cs)))
	}
}

func paren(xs []string) []string {
	out := make([]string, len(xs))
	for i, x := range xs {
		out[i] = "(" + x + ")"
	}
	return out
}

type jsnap struct {
	Path string `json:"p"`
	St   string `json:"st"`
	Stat string `json:"stat"`
}

func (l *live) jsonSnap() []jsnap {
	var out []jsnap
	paths := make([]string, 0, len(l.byPath))
	for p := range l.byPath {
		paths = append(paths, p)
	}
	sort.Strings(paths)
	for _, p := range paths {
		r := l.byPath[p]
		out = append(out, jsnap{p, stateNames[int(r.GetState())], statusNames[int(r.GetStatus())]})
	}
	return out
}

func natList(xs []int) string {
	if len(xs) == 0 {
		return "[]"
	}
	items := make([]string, len(xs))
	for i, x := range xs {
		items[i] = fmt.Sprintf("%d", x)
	}
	return "[" + strings.Join(items, "; ") + "]%nat"
}

func indexOf(names []string, s string) int {
	for i, n := range names {
		if n == s {
			return i
		}
	}
	return -1
}

func (l *live) drainAdapter() (sts []int, stats []int) {
	for {
		select {
		case s := <-l.stCh:
			sts = append(sts, int(s))
			continue
		case s := <-l.statCh:
			stats = append(stats, int(s))
			continue
		default:
		}
		return
	}
}

func (l *live) takeEvents() string {
	var items []string
	for _, e := range l.rec.events {
		idx, ok := l.idxPath[e[0]]
		if !ok {
			panic("event for unknown role path " + e[0])
		}
		var code int
		if strings.HasPrefix(e[1], "S:") {
			code = indexOf(stateNames, e[1][2:])
		} else {
			code = indexOf(statusNames, e[1][2:])
		}
		if code < 0 {
			panic("event with unknown value " + e[1])
		}
		items = append(items, gen.Pair(natList(idx), gen.N(uint64(code))))
	}
	l.rec.events = nil
	return gen.List(items)
}

func opTerm(l *live, o opIn) string {
	idx, ok := l.idxPath[o.Leaf]
	if !ok {
		panic("op on unknown leaf " + o.Leaf)
	}
	if o.S {
		return fmt.Sprintf("OpState %s %s", natList(idx), stateNames[o.V])
	}
	return fmt.Sprintf("OpStatus %s %s", natList(idx), statusNames[o.V])
}

func (l *live) apply(o opIn) {
	pu := l.byPath[o.Leaf].(workflow.PublicUpdatable)
	if o.S {
		pu.UpdateState(sm.State(o.V))
	} else {
		pu.UpdateStatus(task.Status(o.V))
	}
}

func nList(xs []int) string {
	items := make([]string, len(xs))
	for i, x := range xs {
		items[i] = gen.N(uint64(x))
	}
	return gen.List(items)
}

// ---------------------------------------------------------------- cases

func caseSeq(in input) gen.Case {
	l, err := load(in.Tree)
	if err != nil {
		panic(err)
	}
	switch in.Mode {
	case 1:
		for _, p := range in.Preset {
			if r, ok := l.byPath[p.Path]; ok {
				workflow.VerifC11SetCached(r, sm.State(p.St), task.Status(p.Stat))
			}
		}
		for _, p := range l.aggs { // bottom-up
			workflow.VerifC11Recompute(l.byPath[p])
		}
	case 2:
		for _, p := range in.Preset {
			if r, ok := l.byPath[p.Path]; ok {
				workflow.VerifC11SetCached(r, sm.State(p.St), task.Status(p.Stat))
			}
		}
	}
	t0 := snapshot(l.root)
	var ops, obs []string
	var jobs []interface{}
	for _, o := range in.Ops {
		ops = append(ops, opTerm(l, o))
		l.apply(o)
		sts, stats := l.drainAdapter()
		ad := sts
		if !o.S {
			ad = stats
		}
		if (o.S && len(stats) > 0) || (!o.S && len(sts) > 0) {
			ad = append(ad, 777) // the other channel must stay silent
		}
		obs = append(obs, fmt.Sprintf("mkObs (%s) %s %s", snapshot(l.root), l.takeEvents(), nList(ad)))
		jobs = append(jobs, map[string]interface{}{"root_state": stateNames[int(l.root.GetState())],
			"root_status": statusNames[int(l.root.GetStatus())], "adapter": ad})
	}
	term := fmt.Sprintf("CSeq %d (%s) %s %s", in.Mode, t0, gen.List(paren(ops)), gen.List(paren(obs)))
	kind := []string{"seq-loaded", "seq-consistent-preset", "seq-arbitrary-preset"}[in.Mode]
	return gen.Case{Term: term, Kind: kind, Input: in, Obs: map[string]interface{}{"steps": jobs, "final": l.jsonSnap()}}
}

func runAll(in nodeIn, ops []opIn) (*live, string, string, string) {
	l, err := load(in)
	if err != nil {
		panic(err)
	}
	t0 := snapshot(l.root)
	var terms []string
	for _, o := range ops {
		terms = append(terms, opTerm(l, o))
		l.apply(o)
	}
	return l, t0, gen.List(paren(terms)), snapshot(l.root)
}

func caseComm(in input) gen.Case {
	l1, t0, ops1, f1 := runAll(in.Tree, in.Ops)
	l2, _, ops2, f2 := runAll(in.Tree, in.Ops2)
	term := fmt.Sprintf("CComm (%s) %s (%s) %s (%s)", t0, ops1, f1, ops2, f2)
	return gen.Case{Term: term, Kind: "comm", Input: in,
		Obs: map[string]interface{}{"final1": l1.jsonSnap(), "final2": l2.jsonSnap()}}
}

// permTerm: the ptree that maps the children lists of a onto those of b (matched by role name).
func permTerm(a, b workflow.Role) string {
	switch workflow.VerifC11Kind(a) {
	case "task", "call":
		return "P [] []"
	}
	ca, cb := a.GetRoles(), b.GetRoles()
	if len(ca) != len(cb) {
		panic("permuted tree has a different number of children")
	}
	pos := map[string]int{}
	for i, c := range ca {
		pos[c.GetName()] = i
	}
	perm := make([]int, len(cb))
	subs := make([]string, len(ca))
	for k, c := range cb {
		i, ok := pos[c.GetName()]
		if !ok {
			panic("permuted tree has an unknown child " + c.GetName())
		}
		perm[k] = i
		subs[i] = "(" + permTerm(ca[i], c) + ")"
	}
	return fmt.Sprintf("P %s %s", natList(perm), gen.List(subs))
}

func casePerm(in input) gen.Case {
	l1, t0, ops1, f1 := runAll(in.Tree, in.Ops)
	// the permutation is read off freshly loaded trees
	la, err := load(in.Tree)
	if err != nil {
		panic(err)
	}
	lb, err := load(*in.Tree2)
	if err != nil {
		panic(err)
	}
	pt := permTerm(la.root, lb.root)
	l2, t0b, ops2, f2 := runAll(*in.Tree2, in.Ops)
	term := fmt.Sprintf("CPerm (%s) %s (%s) (%s) (%s) %s (%s)", t0, ops1, f1, pt, t0b, ops2, f2)
	return gen.Case{Term: term, Kind: "perm", Input: in,
		Obs: map[string]interface{}{"final": l1.jsonSnap(), "final_permuted": l2.jsonSnap()}}
}

// caseConc: the Ops (all UpdateState) are the tokens; Sched lists, per segment, the token that
// runs until its next SendEvents call (or to the end of UpdateState).
func caseConc(in input) gen.Case {
	l, err := load(in.Tree)
	if err != nil {
		panic(err)
	}
	t0 := snapshot(l.root)
	n := len(in.Ops)
	type tok struct {
		start, resume chan struct{}
		started, done bool
		segs          int
		crit          bool
	}
	toks := make([]*tok, n)
	arrived := make(chan struct{})
	finished := make(chan struct{})
	current := -1
	for i := range toks {
		toks[i] = &tok{start: make(chan struct{}), resume: make(chan struct{}),
			crit: l.byPath[in.Ops[i].Leaf].IsCritical()}
	}
	l.rec.onEvent = func() {
		me := current
		arrived <- struct{}{}
		<-toks[me].resume
	}
	for i := range toks {
		go func(i int) {
			<-toks[i].start
			l.apply(in.Ops[i])
			finished <- struct{}{}
		}(i)
	}
	var segs []string
	var jsegs []interface{}
	runSeg := func(i int) {
		t := toks[i]
		var steps []int
		if t.done {
			// nothing runs; recorded as an empty segment
		} else {
			current = i
			if !t.started {
				t.started = true
				t.start <- struct{}{}
			} else {
				t.resume <- struct{}{}
			}
			select {
			case <-arrived:
			case <-finished:
				t.done = true
			}
			// model steps this segment stands for
			switch {
			case t.segs == 0:
				steps = []int{i}
			case !t.crit:
				steps = nil
			case t.segs == 1:
				steps = []int{i}
			default:
				steps = []int{i, i}
			}
			t.segs++
		}
		segs = append(segs, gen.Pair(natList(steps), "("+snapshot(l.root)+")"))
		jsegs = append(jsegs, map[string]interface{}{"token": i, "root": stateNames[int(l.root.GetState())]})
	}
	sched := append([]int{}, in.Sched...)
	for _, i := range sched {
		if i >= 0 && i < n {
			runSeg(i)
		}
	}
	// run everything that is left to the end, in token order
	for i := 0; i < n; i++ {
		for !toks[i].done {
			runSeg(i)
		}
	}
	l.rec.onEvent = nil
	sts, stats := l.drainAdapter()
	if len(stats) > 0 {
		sts = append(sts, 777)
	}
	var ups []string
	for _, o := range in.Ops {
		ups = append(ups, gen.Pair(natList(l.idxPath[o.Leaf]), stateNames[o.V]))
	}
	term := fmt.Sprintf("CConc (%s) %s %s (%s) %s", t0, gen.List(ups), gen.List(segs), snapshot(l.root), nList(sts))
	return gen.Case{Term: term, Kind: "conc", Input: in,
		Obs: map[string]interface{}{"segments": jsegs, "final": l.jsonSnap(), "adapter": sts}}
}

func runCase(kind string, in input) gen.Case {
	switch kind {
	case "comm":
		return caseComm(in)
	case "perm":
		return casePerm(in)
	case "conc":
		return caseConc(in)
	case "gate":
		return caseGate(in)
	default:
		return caseSeq(in)
	}
}

// ---------------------------------------------------------------- corpus (runs first)

func corpus() []struct {
	kind string
	in   input
} {
	// C11-a: the Coq witness wit_a_tree / wit_a_ops
	ta := nodeIn{K: "a", Name: "root", Ch: []nodeIn{
		{K: "a", Name: "a1", Ch: []nodeIn{{K: "t", Name: "t1", Crit: false}}},
		{K: "t", Name: "t2", Crit: true}}}
	// C11-b: the Coq witness wit_b_tree / wit_b_ups / wit_b_sched
	tb := nodeIn{K: "a", Name: "root", Ch: []nodeIn{
		{K: "a", Name: "a1", Ch: []nodeIn{{K: "t", Name: "t1", Crit: true}, {K: "t", Name: "t2", Crit: true}}},
		{K: "t", Name: "t3", Crit: true}}}
	// was finding C11-c (loader repaired in 3e1e68b): an aggregator whose iterator expands to
	// nothing, next to a task that becomes ACTIVE.  a1 is pruned now and the root goes ACTIVE; were
	// it kept, the loaded tree would be flagged (monitor code 10)
	tc := nodeIn{K: "a", Name: "root", Ch: []nodeIn{
		{K: "a", Name: "a1", Ch: []nodeIn{{K: "r", Name: "r1", N: 0, Ch: []nodeIn{{K: "t", Name: "t1", Crit: true}}}}},
		{K: "t", Name: "t2", Crit: true}}}
	return []struct {
		kind string
		in   input
	}{
		{"seq", input{Tree: ta, Ops: []opIn{{Leaf: "root.t2", S: true, V: int(sm.CONFIGURED)}}}},
		{"seq", input{Tree: ta, Ops: []opIn{{Leaf: "root.a1.t1", S: true, V: int(sm.CONFIGURED)}, {Leaf: "root.t2", S: true, V: int(sm.CONFIGURED)}}}},
		{"conc", input{Tree: tb, Ops: []opIn{{Leaf: "root.a1.t1", S: true, V: int(sm.ERROR)}, {Leaf: "root.a1.t1", S: true, V: int(sm.STANDBY)}},
			Sched: []int{0, 1, 1, 1, 1, 0, 0, 0}}},
		{"seq", input{Tree: tc, Ops: []opIn{{Leaf: "root.t2", S: false, V: int(task.ACTIVE)}}}},
		// a workflow with nothing at all below its root (the root cannot be pruned): no task, no
		// update, nothing to fold; the monitor does not judge what the root says
		{"seq", input{Tree: nodeIn{K: "a", Name: "root", Ch: []nodeIn{
			{K: "r", Name: "r1", N: 0, Ch: []nodeIn{{K: "t", Name: "t1", Crit: true}}}}}}},
	}
}

// ---------------------------------------------------------------- main

func main() {
	if len(os.Args) == 3 && os.Args[1] == "-gen" {
		genMode(os.Args[2])
		return
	}
	o := gen.ParseFlags()
	viper.Set("config_endpoint", "mock://")
	viper.Set("enableKafka", false)
	logrus.SetLevel(logrus.PanicLevel)
	logrus.SetOutput(os.Stderr)

	var cases []gen.Case
	if o.Replay != "" {
		ins, kinds, err := gen.LoadReplay(o.Replay)
		if err != nil {
			panic(err)
		}
		for i, raw := range ins {
			var in input
			if err := json.Unmarshal(raw, &in); err != nil {
				panic(err)
			}
			k := kinds[i]
			if strings.HasPrefix(k, "seq") {
				k = "seq"
			}
			cases = append(cases, runCase(k, in))
		}
	} else {
		for _, c := range corpus() {
			cases = append(cases, runCase(c.kind, c.in))
		}
		for _, in := range gateCorpus() {
			cases = append(cases, caseGate(in))
		}
		// optional extra corpus files (replay format)
		files, _ := filepath.Glob("corpus/C11/*.json")
		sort.Strings(files)
		for _, f := range files {
			ins, kinds, err := gen.LoadReplay(f)
			if err != nil {
				continue
			}
			for i, raw := range ins {
				var in input
				if json.Unmarshal(raw, &in) == nil {
					k := kinds[i]
					if strings.HasPrefix(k, "seq") {
						k = "seq"
					}
					cases = append(cases, runCase(k, in))
				}
			}
		}
		cases = append(cases, generate(o)...)
	}
	extra := map[string]any{"note": "cases 0-6 are the corpus: C11-a witness (twice), C11-b witness schedule, the former C11-c witness (aggregator over an empty iterator, pruned by the loader since 3e1e68b), a workflow with nothing below its root, two gate cases (state: the split-merge witness of C11_error_lost_if_merge_not_atomic plus an aggregator for the gate; status: the same tree)",
		"gate_wait_ms": int(gateWait() / 1e6)}
	if err := gen.WriteCases(o, "C11", "From Verif Require Import Common RoleTree.", "c11_case", "report11", cases, extra); err != nil {
		panic(err)
	}
}
