// Gate cases for C11: pre-emption INSIDE a merge.
//
// The model treats SafeState.merge / SafeStatus.merge as one step of a schedule because they hold
// the role's mutex from the first statement to the last.  The forced schedules of caseConc switch
// only at SendEvents calls, i.e. between merges.  A gate case stops updater B in the middle of the
// re-aggregation of an aggregator P (in front of one of P's children, which is replaced, for the
// duration of the case, by a wrapper whose GetState / GetStatus blocks on a channel) and starts
// updater A on another leaf below P while B is parked there:
//
//   - when merge holds P's lock around the aggregation, A cannot get past P until B is released
//     (observed with a timeout: blocked = true); the final tree is the model's for the schedule
//     "B up to and including its merge at P, A the same, B to the end, A to the end";
//   - when the lock is not held there, A's merge at P completes while B is parked and B then
//     stores an aggregate computed from what it had read before: the final tree is no longer the
//     fold of its leaves (an ERROR of a critical task lost at P and above: monitor code 4; a
//     stale healthy value: 6 / 1; status: 14 / 2).
//
// No hook in /repo is needed: the wrapper embeds the real child (workflow.Role has unexported
// methods, which are promoted through the embedded interface) and is put into the parent's
// exported Roles slice by reflection.
package main

import (
	"fmt"
	"os"
	"reflect"
	"runtime"
	"strconv"
	"strings"
	"sync"
	"sync/atomic"
	"time"

	"github.com/AliceO2Group/Control/core/task"
	"github.com/AliceO2Group/Control/core/task/sm"
	"github.com/AliceO2Group/Control/core/workflow"

	"verif/harness/internal/gen"
)

// gateIn: P is the role path of the aggregator whose merge is pre-empted, Child the index (in
// P.GetRoles()) of the child the gate stands in front of, Skip the number of GetState/GetStatus
// calls on that child that pass before the gate closes (aggregateStatus reads every child once
// for its log line before it folds them).
type gateIn struct {
	P     string `json:"p"`
	Child int    `json:"child"`
	Skip  int    `json:"skip"`
}

type gateRole struct {
	workflow.Role
	state   bool // gate on GetState (else on GetStatus)
	skip    int32
	armed   int32
	calls   int32
	entered chan struct{}
	release chan struct{}
}

func (g *gateRole) hit() {
	if atomic.LoadInt32(&g.armed) == 0 {
		return
	}
	n := atomic.AddInt32(&g.calls, 1) - 1
	if n == g.skip && atomic.CompareAndSwapInt32(&g.armed, 1, 0) {
		g.entered <- struct{}{}
		<-g.release
	}
}

func (g *gateRole) GetState() sm.State {
	if g.state {
		g.hit()
	}
	return g.Role.GetState()
}

func (g *gateRole) GetStatus() task.Status {
	if !g.state {
		g.hit()
	}
	return g.Role.GetStatus()
}

func curGID() int64 {
	var buf [64]byte
	n := runtime.Stack(buf[:], false)
	s := strings.TrimPrefix(string(buf[:n]), "goroutine ")
	if i := strings.IndexByte(s, ' '); i > 0 {
		if id, err := strconv.ParseInt(s[:i], 10, 64); err == nil {
			return id
		}
	}
	panic("cannot read the goroutine id")
}

// roleSlots: the settable slots of r's children, flattened the way aggregator.GetRoles does.
func roleSlots(r workflow.Role) []reflect.Value {
	v := reflect.ValueOf(r)
	if v.Kind() == reflect.Ptr {
		v = v.Elem()
	}
	f := v.FieldByName("Roles")
	if !f.IsValid() || f.Kind() != reflect.Slice {
		panic("role without a Roles slice: " + r.GetPath())
	}
	var out []reflect.Value
	for i := 0; i < f.Len(); i++ {
		e := f.Index(i)
		child := e.Interface().(workflow.Role)
		if workflow.VerifC11Kind(child) == "iterator" {
			out = append(out, roleSlots(child)...)
		} else {
			out = append(out, e)
		}
	}
	return out
}

type hold struct {
	path    string
	active  int32
	arrived chan struct{}
	resume  chan struct{}
}

func newHold(path string) *hold {
	return &hold{path: path, arrived: make(chan struct{}, 1), resume: make(chan struct{})}
}

func gateWait() time.Duration {
	if s := os.Getenv("VERIF_C11_GATE_MS"); s != "" {
		if n, err := strconv.Atoi(s); err == nil && n > 0 {
			return time.Duration(n) * time.Millisecond
		}
	}
	return 100 * time.Millisecond
}

// caseGate: Ops[0] is B (runs first, parks inside the merge of Gate.P), Ops[1] is A.
func caseGate(in input) gen.Case {
	if in.Gate == nil || len(in.Ops) != 2 || in.Ops[0].S != in.Ops[1].S {
		panic("gate case needs a gate and two updates of the same kind")
	}
	l, err := load(in.Tree)
	if err != nil {
		panic(err)
	}
	if in.Mode == 1 {
		for _, p := range in.Preset {
			if r, ok := l.byPath[p.Path]; ok {
				workflow.VerifC11SetCached(r, sm.State(p.St), task.Status(p.Stat))
			}
		}
		for _, p := range l.aggs {
			workflow.VerifC11Recompute(l.byPath[p])
		}
	}
	t0 := snapshot(l.root)
	isState := in.Ops[0].S
	P, ok := l.byPath[in.Gate.P]
	if !ok {
		panic("gate on unknown role " + in.Gate.P)
	}
	slots := roleSlots(P)
	flat := P.GetRoles()
	if len(slots) != len(flat) || in.Gate.Child < 0 || in.Gate.Child >= len(slots) {
		panic("gate: children of " + in.Gate.P + " not found by reflection")
	}
	for i := range slots {
		if slots[i].Interface().(workflow.Role) != flat[i] {
			panic("gate: children of " + in.Gate.P + " not found by reflection")
		}
	}
	child := flat[in.Gate.Child]
	g := &gateRole{Role: child, state: isState, skip: int32(in.Gate.Skip),
		entered: make(chan struct{}, 1), release: make(chan struct{})}
	slots[in.Gate.Child].Set(reflect.ValueOf(g))
	if P.GetRoles()[in.Gate.Child] != workflow.Role(g) {
		panic("gate: not installed")
	}
	atomic.StoreInt32(&g.armed, 1)

	var mu sync.Mutex
	holds := map[int64]*hold{}
	l.rec.onEventPath = func(path string) {
		id := curGID()
		mu.Lock()
		h := holds[id]
		mu.Unlock()
		if h != nil && path == h.path && atomic.CompareAndSwapInt32(&h.active, 1, 0) {
			h.arrived <- struct{}{}
			<-h.resume
		}
	}
	start := func(o opIn, h *hold) chan struct{} {
		done := make(chan struct{})
		go func() {
			mu.Lock()
			holds[curGID()] = h
			mu.Unlock()
			l.apply(o)
			close(done)
		}()
		return done
	}
	long := time.After(20 * time.Second)
	stuck := func(what string) { panic("gate case: " + what + " never happened (deadlock in the harness protocol)") }

	hB, hA := newHold(in.Gate.P), newHold(in.Gate.P)
	parked, blocked := false, false
	doneB := start(in.Ops[0], hB)
	select {
	case <-g.entered:
		parked = true
	case <-doneB:
	case <-long:
		stuck("B reaching the gate or its end")
	}
	if !parked {
		atomic.StoreInt32(&g.armed, 0)
		l.apply(in.Ops[1])
	} else {
		aArrived, aDone := false, false
		atomic.StoreInt32(&hA.active, 1)
		doneA := start(in.Ops[1], hA)
		select {
		case <-hA.arrived:
			aArrived = true
		case <-doneA:
			aDone = true
		case <-time.After(gateWait()):
			blocked = true
		}
		atomic.StoreInt32(&hB.active, 1)
		close(g.release)
		bArrived := false
		select {
		case <-hB.arrived:
			bArrived = true
		case <-doneB:
		case <-long:
			stuck("B leaving the merge")
		}
		if !aArrived && !aDone {
			select {
			case <-hA.arrived:
				aArrived = true
			case <-doneA:
				aDone = true
			case <-long:
				stuck("A getting through the merge after B")
			}
		}
		if bArrived {
			hB.resume <- struct{}{}
			<-doneB
		}
		if aArrived {
			hA.resume <- struct{}{}
		}
		if !aDone {
			<-doneA
		}
	}
	l.rec.onEventPath = nil
	slots[in.Gate.Child].Set(reflect.ValueOf(child))

	sts, stats := l.drainAdapter()
	ad := sts
	if !isState {
		ad = stats
	}
	if (isState && len(stats) > 0) || (!isState && len(sts) > 0) {
		ad = append(ad, 777)
	}
	l.rec.events = nil
	term := fmt.Sprintf("CGate %d (%s) %s (%s) (%s) %s %s (%s) %s", in.Mode, t0, natList(l.idxPath[in.Gate.P]),
		opTerm(l, in.Ops[0]), opTerm(l, in.Ops[1]), gen.Bool(parked), gen.Bool(blocked), snapshot(l.root), nList(ad))
	return gen.Case{Term: term, Kind: "gate", Input: in,
		Obs: map[string]interface{}{"parked_inside_merge": parked, "second_update_blocked": blocked,
			"final": l.jsonSnap(), "adapter": ad}}
}

// ---------------------------------------------------------------- generation

// gateCorpus: the two cases that run first.  The tree is the Coq witness wit_s_tree (two
// critical tasks) plus an aggregator for the gate to stand in front of.
func gateCorpus() []input {
	t := nodeIn{K: "a", Name: "root", Ch: []nodeIn{
		{K: "t", Name: "tB", Crit: true}, {K: "t", Name: "tA", Crit: true},
		{K: "a", Name: "a1", Ch: []nodeIn{{K: "t", Name: "t3", Crit: true}}}}}
	return []input{
		{Tree: t, Gate: &gateIn{P: "root", Child: 2, Skip: 0},
			Ops: []opIn{{Leaf: "root.tB", S: true, V: int(sm.CONFIGURED)}, {Leaf: "root.tA", S: true, V: int(sm.ERROR)}}},
		{Tree: t, Gate: &gateIn{P: "root", Child: 2, Skip: 1},
			Ops: []opIn{{Leaf: "root.tB", S: false, V: int(task.ACTIVE)}, {Leaf: "root.tA", S: false, V: int(task.UNDEPLOYABLE)}}},
	}
}

func hasPrefix(p, q []int) bool {
	if len(p) > len(q) {
		return false
	}
	for i := range p {
		if p[i] != q[i] {
			return false
		}
	}
	return true
}

// genGate draws one gate case, or ok=false when the drawn tree has no place for one.
func genGate(r *gen.Rand, isState bool) (in input, ok bool) {
	so := shapeOpts{maxDepth: r.Range(1, 3), maxLeaves: r.Range(3, 7), critBias: []int{8, 8, 7, 6}[r.Intn(4)],
		iterators: r.Chance(1, 4)}
	t := genShape(r, so)
	l, err := load(t)
	if err != nil {
		panic(err)
	}
	usable := func(leaf string) bool { return !isState || l.byPath[leaf].IsCritical() }
	type cand struct {
		p     string
		child int
		b, a  string
	}
	var cands []cand
	for _, p := range l.aggs {
		pi := l.idxPath[p]
		roles := l.byPath[p].GetRoles()
		for g := 1; g < len(roles); g++ {
			if isState { // the wrapper is counted like an aggregator: only in front of counted children
				k := workflow.VerifC11Kind(roles[g])
				if (k == "task" || k == "call") && !roles[g].IsCritical() {
					continue
				}
			}
			for _, a := range l.leaves {
				ai := l.idxPath[a]
				if !usable(a) || !hasPrefix(pi, ai) || len(ai) <= len(pi) || ai[len(pi)] >= g {
					continue
				}
				for _, b := range l.leaves {
					if b == a || !usable(b) || !hasPrefix(pi, l.idxPath[b]) {
						continue
					}
					cands = append(cands, cand{p, g, b, a})
				}
			}
		}
	}
	if len(cands) == 0 {
		return input{}, false
	}
	c := cands[r.Intn(len(cands))]
	in = input{Tree: t, Gate: &gateIn{P: c.p, Child: c.child}}
	if r.Chance(2, 5) {
		in.Mode = 1
		for _, lf := range l.leaves {
			in.Preset = append(in.Preset, presetIn{Path: lf, St: healthy[r.Intn(len(healthy))], Stat: usualStatus[r.Intn(len(usualStatus))]})
		}
	}
	if isState {
		vb := healthy[r.Intn(len(healthy))]
		va := int(sm.ERROR)
		if r.Chance(2, 5) {
			va = genState(r, r.Chance(1, 4))
		}
		in.Ops = []opIn{{Leaf: c.b, S: true, V: vb}, {Leaf: c.a, S: true, V: va}}
	} else {
		in.Gate.Skip = 1
		if r.Chance(1, 4) {
			in.Gate.Skip = 0
		}
		vb := []int{int(task.ACTIVE), int(task.PARTIAL), int(task.INACTIVE), int(task.UNDEPLOYABLE)}[r.Intn(4)]
		va := []int{int(task.UNDEPLOYABLE), int(task.UNDEFINED), int(task.ACTIVE), int(task.INACTIVE), int(task.PARTIAL)}[r.Intn(5)]
		in.Ops = []opIn{{Leaf: c.b, S: false, V: vb}, {Leaf: c.a, S: false, V: va}}
	}
	return in, true
}

// generateGate: n cases, half state and half status.
func generateGate(r *gen.Rand, n int) []gen.Case {
	var cases []gen.Case
	for i, tries := 0, 0; i < n && tries < 20*n; tries++ {
		in, ok := genGate(r, i%2 == 0)
		if !ok {
			continue
		}
		cases = append(cases, caseGate(in))
		i++
	}
	return cases
}
