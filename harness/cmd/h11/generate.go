// Generators for C11: role-tree shapes and update sequences aimed at the decision points of the
// model (equal-keep / MIXED / ERROR shortcuts / recompute, criticality filter, aggregators
// without critical or without any descendants, iterator and include roles, repeated values,
// overtaken updates).
package main

import (
	"fmt"
	"sort"

	"github.com/AliceO2Group/Control/core/task"
	"github.com/AliceO2Group/Control/core/task/sm"

	"verif/harness/internal/gen"
)

type shapeOpts struct {
	maxDepth  int
	maxLeaves int
	critBias  int // out of 8: probability that a leaf is critical
	iterators bool
	emptyIter bool
}

type shaper struct {
	r      *gen.Rand
	o      shapeOpts
	id     int
	leaves int
}

func (s *shaper) name(prefix string) string {
	s.id++
	return fmt.Sprintf("%s%d", prefix, s.id)
}

func (s *shaper) leaf() nodeIn {
	s.leaves++
	k := "t"
	if s.r.Chance(1, 4) {
		k = "c"
	}
	return nodeIn{K: k, Name: s.name(k), Crit: s.r.Chance(s.o.critBias, 8)}
}

func (s *shaper) agg(depth int, kind string) nodeIn {
	n := nodeIn{K: kind, Name: s.name(kind)}
	nch := s.r.Range(1, 4)
	if depth == 0 {
		nch = s.r.Range(1, 5)
	}
	for i := 0; i < nch; i++ {
		if s.leaves >= s.o.maxLeaves {
			break
		}
		n.Ch = append(n.Ch, s.role(depth+1))
	}
	if len(n.Ch) == 0 {
		n.Ch = append(n.Ch, s.leaf())
	}
	return n
}

func (s *shaper) role(depth int) nodeIn {
	canNest := depth < s.o.maxDepth
	x := s.r.Intn(16)
	switch {
	case canNest && x < 4:
		return s.agg(depth, "a")
	case canNest && x < 6:
		return s.agg(depth, "i")
	case s.o.iterators && x < 9:
		// iterator over a leaf or over an aggregator
		n := nodeIn{K: "r", Name: s.name("r")}
		n.N = s.r.Range(1, 3)
		if s.o.emptyIter && s.r.Chance(1, 3) {
			n.N = 0
		}
		before := s.leaves
		var tmpl nodeIn
		if canNest && s.r.Chance(1, 3) {
			tmpl = s.agg(depth, "a")
		} else {
			tmpl = s.leaf()
		}
		// the template's leaves exist N times
		s.leaves = before + (s.leaves-before)*n.N
		n.Ch = []nodeIn{tmpl}
		return n
	default:
		return s.leaf()
	}
}

func genShape(r *gen.Rand, o shapeOpts) nodeIn {
	s := &shaper{r: r, o: o}
	root := s.agg(0, "a")
	root.Name = "root"
	return root
}

var healthy = []int{int(sm.STANDBY), int(sm.CONFIGURED), int(sm.RUNNING), int(sm.DONE)}
var oddStates = []int{int(sm.MIXED), int(sm.INVARIANT), int(sm.UNKNOWN)}
var usualStatus = []int{int(task.ACTIVE), int(task.INACTIVE), int(task.ACTIVE), int(task.PARTIAL), int(task.UNDEPLOYABLE)}

func genState(r *gen.Rand, odd bool) int {
	x := r.Intn(20)
	switch {
	case x < 3:
		return int(sm.ERROR)
	case odd && x < 7:
		return oddStates[r.Intn(len(oddStates))]
	default:
		return healthy[r.Intn(len(healthy))]
	}
}

func genStatus(r *gen.Rand, odd bool) int {
	if odd && r.Chance(1, 5) || r.Chance(1, 25) {
		return int(task.UNDEFINED)
	}
	return usualStatus[r.Intn(len(usualStatus))]
}

// genOps: single updates mixed with sweeps (every leaf gets the same value, in random order, as a
// transition of the environment does), repeated values and ERROR/recovery pairs.
func genOps(r *gen.Rand, leaves []string, n int, odd bool, stateOnly bool) []opIn {
	var ops []opIn
	if len(leaves) == 0 {
		return ops
	}
	for len(ops) < n {
		switch r.Intn(8) {
		case 0, 1: // sweep
			isState := stateOnly || r.Chance(2, 3)
			v := genState(r, false)
			if !isState {
				v = genStatus(r, false)
			}
			for _, i := range r.Perm(len(leaves)) {
				if r.Chance(1, 10) {
					continue // one task lags behind
				}
				ops = append(ops, opIn{Leaf: leaves[i], S: isState, V: v})
			}
		case 2: // the same update twice
			l := leaves[r.Intn(len(leaves))]
			v := genState(r, odd)
			ops = append(ops, opIn{Leaf: l, S: true, V: v}, opIn{Leaf: l, S: true, V: v})
		case 3: // ERROR then recovery
			l := leaves[r.Intn(len(leaves))]
			ops = append(ops, opIn{Leaf: l, S: true, V: int(sm.ERROR)})
			if r.Chance(2, 3) {
				ops = append(ops, opIn{Leaf: l, S: true, V: healthy[r.Intn(len(healthy))]})
			}
		default:
			l := leaves[r.Intn(len(leaves))]
			if stateOnly || r.Chance(3, 5) {
				ops = append(ops, opIn{Leaf: l, S: true, V: genState(r, odd)})
			} else {
				ops = append(ops, opIn{Leaf: l, S: false, V: genStatus(r, odd)})
			}
		}
	}
	if len(ops) > n+len(leaves) {
		ops = ops[:n+len(leaves)]
	}
	return ops
}

func leavesOf(in nodeIn) []string {
	l, err := load(in)
	if err != nil {
		panic(err)
	}
	return l.leaves
}

func allPaths(in nodeIn) (leaves, aggs []string) {
	l, err := load(in)
	if err != nil {
		panic(err)
	}
	return l.leaves, l.aggs
}

func permuteShape(r *gen.Rand, n nodeIn) nodeIn {
	out := n
	out.Ch = nil
	if n.K == "r" {
		out.Ch = []nodeIn{permuteShape(r, n.Ch[0])}
		return out
	}
	for _, i := range r.Perm(len(n.Ch)) {
		out.Ch = append(out.Ch, permuteShape(r, n.Ch[i]))
	}
	return out
}

// reorder keeps the relative order of the updates of each leaf and shuffles the rest.
func reorder(r *gen.Rand, ops []opIn) []opIn {
	queues := map[string][]opIn{}
	var keys []string
	for _, o := range ops {
		if _, ok := queues[o.Leaf]; !ok {
			keys = append(keys, o.Leaf)
		}
		queues[o.Leaf] = append(queues[o.Leaf], o)
	}
	var out []opIn
	for len(keys) > 0 {
		i := r.Intn(len(keys))
		k := keys[i]
		out = append(out, queues[k][0])
		queues[k] = queues[k][1:]
		if len(queues[k]) == 0 {
			keys = append(keys[:i], keys[i+1:]...)
		}
	}
	return out
}

func generate(o gen.Opts) []gen.Case {
	r := gen.NewRand(o.Seed)
	rSeq, rPre, rArb, rConc, rPerm, rComm := r.Fork(), r.Fork(), r.Fork(), r.Fork(), r.Fork(), r.Fork()
	rGate := r.Fork()
	var cases []gen.Case
	nSeq := o.N * 40 / 100
	nPre := o.N * 15 / 100
	nArb := o.N * 10 / 100
	nConc := o.N * 20 / 100
	nPerm := o.N * 8 / 100
	nComm := o.N - nSeq - nPre - nArb - nConc - nPerm
	long := 1
	if o.Tier == "thorough" {
		long = 2
	}

	shape := func(rr *gen.Rand) nodeIn {
		so := shapeOpts{maxDepth: rr.Range(1, 4), maxLeaves: rr.Range(1, 12), critBias: []int{8, 7, 6, 4, 2}[rr.Intn(5)],
			iterators: rr.Chance(1, 2), emptyIter: rr.Chance(1, 6)}
		return genShape(rr, so)
	}

	// sequential updates on loaded trees
	for i := 0; i < nSeq; i++ {
		t := shape(rSeq)
		leaves := leavesOf(t)
		odd := rSeq.Chance(1, 8) // the "malformed" stream: values a task never reports
		ops := genOps(rSeq, leaves, rSeq.Range(1, 14*long), odd, false)
		cases = append(cases, runCase("seq", input{Tree: t, Ops: ops}))
	}
	// leaves preset to arbitrary values, aggregator caches recomputed by the implementation
	for i := 0; i < nPre; i++ {
		t := shape(rPre)
		leaves, _ := allPaths(t)
		var pre []presetIn
		for _, l := range leaves {
			pre = append(pre, presetIn{Path: l, St: rPre.Intn(8), Stat: rPre.Intn(5)})
		}
		ops := genOps(rPre, leaves, rPre.Range(1, 10*long), rPre.Chance(1, 3), false)
		cases = append(cases, runCase("seq", input{Tree: t, Mode: 1, Preset: pre, Ops: ops}))
	}
	// all caches preset arbitrarily (correspondence of the merge code from any cache)
	for i := 0; i < nArb; i++ {
		t := shape(rArb)
		leaves, aggs := allPaths(t)
		var pre []presetIn
		for _, l := range append(append([]string{}, leaves...), aggs...) {
			pre = append(pre, presetIn{Path: l, St: rArb.Intn(8), Stat: rArb.Intn(5)})
		}
		ops := genOps(rArb, leaves, rArb.Range(1, 8*long), true, false)
		cases = append(cases, runCase("seq", input{Tree: t, Mode: 2, Preset: pre, Ops: ops}))
	}
	// interleaved UpdateState calls: few leaves, several tokens per leaf, forced schedules
	for i := 0; i < nConc; i++ {
		so := shapeOpts{maxDepth: rConc.Range(1, 3), maxLeaves: rConc.Range(1, 5), critBias: []int{8, 8, 7, 5}[rConc.Intn(4)],
			iterators: rConc.Chance(1, 4)}
		t := genShape(rConc, so)
		leaves := leavesOf(t)
		if len(leaves) == 0 {
			continue
		}
		nt := rConc.Range(2, 5)
		var toks []opIn
		hot := leaves[rConc.Intn(len(leaves))]
		for k := 0; k < nt; k++ {
			l := leaves[rConc.Intn(len(leaves))]
			if rConc.Chance(1, 2) {
				l = hot // several updates to one task: overtaking
			}
			v := healthy[rConc.Intn(len(healthy))]
			if rConc.Chance(1, 4) {
				v = int(sm.ERROR)
			}
			toks = append(toks, opIn{Leaf: l, S: true, V: v})
		}
		var sched []int
		for k := rConc.Range(0, 6*nt); k > 0; k-- {
			sched = append(sched, rConc.Intn(nt))
		}
		cases = append(cases, runCase("conc", input{Tree: t, Ops: toks, Sched: sched}))
	}
	// the same updates on a tree with permuted children
	for i := 0; i < nPerm; i++ {
		t := shape(rPerm)
		t2 := permuteShape(rPerm, t)
		leaves := leavesOf(t)
		ops := genOps(rPerm, leaves, rPerm.Range(1, 10*long), false, false)
		cases = append(cases, runCase("perm", input{Tree: t, Tree2: &t2, Ops: ops}))
	}
	// the same updates in another order (per-leaf order kept)
	for i := 0; i < nComm; i++ {
		t := shape(rComm)
		leaves := leavesOf(t)
		ops := genOps(rComm, leaves, rComm.Range(2, 10*long), false, false)
		cases = append(cases, runCase("comm", input{Tree: t, Ops: ops, Ops2: reorder(rComm, ops)}))
	}
	// pre-emption inside a merge (gate.go): each parked case costs one wait of gateWait()
	nGate := o.N / 75
	if nGate < 24 {
		nGate = 24
	}
	cases = append(cases, generateGate(rGate, nGate)...)
	// small inputs first: the driver reports the first failing case, so this stands in for
	// shrinking (the monitor is evaluated in Coq, after the run)
	sort.SliceStable(cases, func(i, j int) bool { return sizeOf(cases[i]) < sizeOf(cases[j]) })
	return cases
}

func countNodes(n nodeIn) int {
	c := 1
	if n.K == "r" {
		return 1 + n.N*countNodes(n.Ch[0])
	}
	for _, ch := range n.Ch {
		c += countNodes(ch)
	}
	return c
}

func sizeOf(c gen.Case) int {
	in, ok := c.Input.(input)
	if !ok {
		return 0
	}
	return 2*len(in.Ops) + len(in.Sched) + countNodes(in.Tree)
}
