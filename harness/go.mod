module verif/harness

go 1.22

toolchain go1.22.2

// github.com/coreos/bbolt@v1.3.4: parsing go.mod:
//         module declares its path as: go.etcd.io/bbolt
//                 but was required as: github.com/coreos/bbolt
replace github.com/coreos/bbolt => go.etcd.io/bbolt v1.3.6

// Issue: https://github.com/etcd-io/etcd/issues/11563
//replace (
//	github.com/coreos/go-systemd => github.com/coreos/go-systemd/v22 v22.0.0
//	google.golang.org/grpc => google.golang.org/grpc v1.43.0
//)

// Issue: https://github.com/rivo/tview/issues/416
// tview should be version 0ba8301b415c otherwise peanut will deadlock

replace github.com/imdario/mergo => github.com/imdario/mergo v0.3.16

replace github.com/armon/go-metrics => github.com/hashicorp/go-metrics v0.5.3

require (
	github.com/AlecAivazis/survey/v2 v2.3.7
	github.com/Masterminds/goutils v1.1.1 // indirect
	github.com/Masterminds/semver v1.5.0 // indirect
	github.com/Masterminds/sprig v2.22.0+incompatible // indirect
	github.com/Microsoft/go-winio v0.6.1 // indirect
	github.com/briandowns/spinner v1.23.0
	github.com/denisbrodbeck/machineid v1.0.1
	github.com/dmarkham/enumer v1.5.8
	github.com/fatih/color v1.16.0
	github.com/gdamore/tcell/v2 v2.7.4
	github.com/go-git/go-git/v5 v5.13.0
	github.com/gobwas/glob v0.2.3
	github.com/golang/protobuf v1.5.4 // indirect
	github.com/google/uuid v1.6.0
	github.com/gorilla/mux v1.8.1
	github.com/hashicorp/consul/api v1.28.2
	github.com/jinzhu/copier v0.4.0
	github.com/k0kubun/pp v3.0.1+incompatible
	github.com/looplab/fsm v1.0.1
	github.com/mesos/mesos-go v0.0.11
	github.com/mitchellh/go-homedir v1.1.0
	github.com/naoina/toml v0.1.1
	github.com/olekukonko/tablewriter v0.0.5
	github.com/osamingo/indigo v1.1.1
	github.com/pborman/uuid v1.2.1
	github.com/prometheus/client_golang v1.19.0
	github.com/pseudomuto/protoc-gen-doc v1.5.1
	github.com/rivo/tview v0.0.0-20240307173318-e804876934a1
	github.com/rs/xid v1.5.0
	github.com/russross/blackfriday/v2 v2.1.0 // indirect
	github.com/segmentio/kafka-go v0.4.47
	github.com/sirupsen/logrus v1.9.3
	github.com/spf13/cobra v1.8.0
	github.com/spf13/pflag v1.0.5
	github.com/spf13/viper v1.18.2
	github.com/teo/logrus-prefixed-formatter v0.5.3-0.20230717095749-669d57324f0a
	github.com/valyala/fasttemplate v1.2.2
	github.com/xeipuuv/gojsonschema v1.2.0
	github.com/xlab/treeprint v1.2.0
	golang.org/x/crypto v0.31.0
	golang.org/x/net v0.33.0
	golang.org/x/sys v0.28.0
	google.golang.org/grpc v1.62.1
	google.golang.org/grpc/cmd/protoc-gen-go-grpc v1.3.0
	google.golang.org/protobuf v1.34.1
	gopkg.in/yaml.v3 v3.0.1
)

require (
	dario.cat/mergo v1.0.1
	github.com/expr-lang/expr v1.17.0
	github.com/flosch/pongo2/v6 v6.0.0
	github.com/gogo/protobuf v1.3.2
	github.com/hashicorp/go-multierror v1.1.1
	github.com/iancoleman/strcase v0.3.0
	github.com/onsi/ginkgo/v2 v2.19.0
	github.com/onsi/gomega v1.34.1
	github.com/swaggo/http-swagger/v2 v2.0.2
	github.com/swaggo/swag v1.16.3
	golang.org/x/exp v0.0.0-20240719175910-8a7402abbf56
)

require (
	github.com/KyleBanks/depth v1.2.1 // indirect
	github.com/ProtonMail/go-crypto v1.1.3 // indirect
	github.com/armon/go-metrics v0.5.3 // indirect
	github.com/beorn7/perks v1.0.1 // indirect
	github.com/cespare/xxhash/v2 v2.2.0 // indirect
	github.com/cloudflare/circl v1.3.7 // indirect
	github.com/cpuguy83/go-md2man/v2 v2.0.4 // indirect
	github.com/cyphar/filepath-securejoin v0.2.5 // indirect
	github.com/emirpasic/gods v1.18.1 // indirect
	github.com/envoyproxy/protoc-gen-validate v1.0.4 // indirect
	github.com/fsnotify/fsnotify v1.7.0 // indirect
	github.com/gdamore/encoding v1.0.1 // indirect
	github.com/go-git/gcfg v1.5.1-0.20230307220236-3a3c6141e376 // indirect
	github.com/go-git/go-billy/v5 v5.6.0 // indirect
	github.com/go-logr/logr v1.4.1 // indirect
	github.com/go-openapi/jsonpointer v0.21.0 // indirect
	github.com/go-openapi/jsonreference v0.21.0 // indirect
	github.com/go-openapi/spec v0.21.0 // indirect
	github.com/go-openapi/swag v0.23.0 // indirect
	github.com/go-task/slim-sprig/v3 v3.0.0 // indirect
	github.com/golang/groupcache v0.0.0-20210331224755-41bb18bfe9da // indirect
	github.com/google/go-cmp v0.6.0 // indirect
	github.com/google/pprof v0.0.0-20240424215950-a892ee059fd6 // indirect
	github.com/hashicorp/errwrap v1.1.0 // indirect
	github.com/hashicorp/go-cleanhttp v0.5.2 // indirect
	github.com/hashicorp/go-hclog v1.6.2 // indirect
	github.com/hashicorp/go-immutable-radix v1.3.1 // indirect
	github.com/hashicorp/go-rootcerts v1.0.2 // indirect
	github.com/hashicorp/golang-lru v1.0.2 // indirect
	github.com/hashicorp/hcl v1.0.0 // indirect
	github.com/hashicorp/serf v0.10.1 // indirect
	github.com/huandu/xstrings v1.4.0 // indirect
	github.com/imdario/mergo v0.3.4 // indirect
	github.com/inconshreveable/mousetrap v1.1.0 // indirect
	github.com/jbenet/go-context v0.0.0-20150711004518-d14ea06fba99 // indirect
	github.com/josharian/intern v1.0.0 // indirect
	github.com/k0kubun/colorstring v0.0.0-20150214042306-9440f1994b88 // indirect
	github.com/kballard/go-shellquote v0.0.0-20180428030007-95032a82bc51 // indirect
	github.com/kevinburke/ssh_config v1.2.0 // indirect
	github.com/klauspost/compress v1.17.7 // indirect
	github.com/kylelemons/godebug v1.1.0 // indirect
	github.com/lucasb-eyer/go-colorful v1.2.0 // indirect
	github.com/magiconair/properties v1.8.7 // indirect
	github.com/mailru/easyjson v0.7.7 // indirect
	github.com/mattn/go-colorable v0.1.13 // indirect
	github.com/mattn/go-isatty v0.0.20 // indirect
	github.com/mattn/go-runewidth v0.0.15 // indirect
	github.com/mgutz/ansi v0.0.0-20200706080929-d51e80ef957d // indirect
	github.com/mitchellh/copystructure v1.2.0 // indirect
	github.com/mitchellh/mapstructure v1.5.0 // indirect
	github.com/mitchellh/reflectwalk v1.0.2 // indirect
	github.com/mwitkow/go-proto-validators v0.3.2 // indirect
	github.com/naoina/go-stringutil v0.1.0 // indirect
	github.com/osamingo/base58 v1.0.0 // indirect
	github.com/pascaldekloe/name v1.0.1 // indirect
	github.com/pelletier/go-toml/v2 v2.1.1 // indirect
	github.com/pierrec/lz4/v4 v4.1.21 // indirect
	github.com/pjbgf/sha1cd v0.3.0 // indirect
	github.com/pquerna/ffjson v0.0.0-20190930134022-aa0246cd15f7 // indirect
	github.com/prometheus/client_model v0.6.0 // indirect
	github.com/prometheus/common v0.50.0 // indirect
	github.com/prometheus/procfs v0.13.0 // indirect
	github.com/pseudomuto/protokit v0.2.1 // indirect
	github.com/rivo/uniseg v0.4.7 // indirect
	github.com/sagikazarmark/locafero v0.4.0 // indirect
	github.com/sagikazarmark/slog-shim v0.1.0 // indirect
	github.com/sergi/go-diff v1.3.2-0.20230802210424-5b0b94c5c0d3 // indirect
	github.com/skeema/knownhosts v1.3.0 // indirect
	github.com/sony/sonyflake v1.2.0 // indirect
	github.com/sourcegraph/conc v0.3.0 // indirect
	github.com/spf13/afero v1.11.0 // indirect
	github.com/spf13/cast v1.6.0 // indirect
	github.com/subosito/gotenv v1.6.0 // indirect
	github.com/swaggo/files/v2 v2.0.0 // indirect
	github.com/urfave/cli/v2 v2.3.0 // indirect
	github.com/valyala/bytebufferpool v1.0.0 // indirect
	github.com/xanzy/ssh-agent v0.3.3 // indirect
	github.com/xeipuuv/gojsonpointer v0.0.0-20190905194746-02993c407bfb // indirect
	github.com/xeipuuv/gojsonreference v0.0.0-20180127040603-bd5ef7bd5415 // indirect
	go.uber.org/multierr v1.11.0 // indirect
	golang.org/x/mod v0.19.0 // indirect
	golang.org/x/sync v0.10.0 // indirect
	golang.org/x/term v0.27.0 // indirect
	golang.org/x/text v0.21.0 // indirect
	golang.org/x/tools v0.23.0 // indirect
	google.golang.org/genproto v0.0.0-20240123012728-ef4313101c80 // indirect
	google.golang.org/genproto/googleapis/api v0.0.0-20240123012728-ef4313101c80 // indirect
	google.golang.org/genproto/googleapis/rpc v0.0.0-20240318140521-94a12d6c2237 // indirect
	gopkg.in/ini.v1 v1.67.0 // indirect
	gopkg.in/warnings.v0 v0.1.2 // indirect
	gopkg.in/yaml.v2 v2.4.0 // indirect
	sigs.k8s.io/yaml v1.3.0 // indirect
)

replace github.com/codahale/hdrhistogram => github.com/HdrHistogram/hdrhistogram-go v1.0.1

replace github.com/pressly/chi => github.com/go-chi/chi v1.5.2

require github.com/AliceO2Group/Control v0.0.0

replace github.com/AliceO2Group/Control => /repo
