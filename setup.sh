#!/bin/sh
# Run once after a fresh restore (offline): builds the harness binaries, regenerates the
# translated tables and compiles the whole Coq development (full .vo build).
set -e
cd "$(dirname "$0")"
export GOFLAGS=-mod=mod GOPROXY=off GOSUMDB=off GOTOOLCHAIN=local CGO_ENABLED=0
mkdir -p build/bin evidence
cp /repo/go.sum harness/go.sum 2>/dev/null || true
( cd harness && for d in cmd/*/; do n=$(basename "$d"); go build -tags verif -o ../build/bin/"$n" ./cmd/"$n" || echo "setup: cmd/$n did not build"; done )
python3 - <<'PY'
import json,glob,subprocess,os
for f in sorted(glob.glob('props.d/*.json')):
    c=json.load(open(f))
    for name,out in c.get('translate',[]):
        subprocess.run(['build/bin/translate',name,'coq/'+out])
    for g in c.get('enumerate',[]):
        subprocess.run(['build/bin/'+g['cmd']]+g['args'])
PY
( cd coq && sh mkproject.sh && timeout 3000 make -j16 -k >/dev/null 2>../build/setup_coq.log || { tail -30 ../build/setup_coq.log; echo "setup: coq build incomplete"; } )
echo "setup done"
