#!/bin/sh
# scratch.sh <name> : private copies of /repo and /verif for trying code changes without
# disturbing anybody:  /tmp/scratch_<name>/repo and /tmp/scratch_<name>/verif .
# Run a check there with:  VERIF_REPO=/tmp/scratch_<name>/repo /tmp/scratch_<name>/verif/check Cxx
# Remove it when done:     rm -rf /tmp/scratch_<name>
set -e
d=/tmp/scratch_$1
rm -rf "$d"; mkdir -p "$d/repo" "$d/verif"
rsync -a --exclude .git /repo/ "$d/repo/"
rsync -a --exclude .git --exclude build --exclude 'coq/cases' /verif/ "$d/verif/"
echo "$d"
